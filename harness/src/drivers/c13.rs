//! C13 driver: the block sieve (`sieve::Sieve`) through its public API only
//! (`new, sieve_block, smooths, next_block, rehash, recycle`; plus the read-only accessor for the
//! documented overflow counters of the bucket tables).
//!
//! A case is one factor base and a sequence of sieves over it (fresh, recycled, rehashed).  Events,
//! in order, all carrying `case`:
//!   fb      primes of the factor base (once per case)
//!   new     r1, r2 (root tables, position 0 = start of the interval), nblocks, offset, recycled, novf
//!   rehash  r1, r2, novf                      (classical sieve: next large block, block number reset)
//!   block   b (block number), thr, root, nrep (number of reports), reports = [[i, [prime indices]]]
//!           (a sample of the reports, always including the first and the last one)
//! Nothing is judged here: spec/sieve/SieveTrace.tla evaluates ReportComplete over all primes.

use bnum::cast::CastFrom;
use rand::rngs::StdRng;
use rand::Rng;
use serde_json::{json, Value};

use yamaquasi::fbase::FBase;
use yamaquasi::sieve::{self, Sieve, SieveRecycle, BLOCK_SIZE};
use yamaquasi::{Int, Uint};

use crate::gen::{rand_bits, rng_for};
use crate::trace::*;

#[derive(Clone, Copy, PartialEq)]
enum Roots {
    /// roots of x^2 - n: +-sqrt(n) shifted by a random start (a real polynomial)
    Real,
    /// every root 0 (second root 1 for the bucket classes, which need two distinct roots)
    Zero,
    /// every root p-1 (p-2 for the second root of the bucket classes)
    Top,
    /// r1 = r2 (single root) for every small prime, random
    Single,
    /// uniformly random roots
    Random,
    /// all large primes hit the same 256-wide bucket: forces the counted overflow
    Crowd,
    /// 40 of the largest primes of one bucket class are planted, two per position, in one bucket of
    /// block 1 (an odd block): the bucket overflows into the kept overflow slots WITHOUT exceeding
    /// them, so no loss is tolerated and the planted primes must all be listed
    Crowd2,
}

/// position (relative to the interval start) of the bucket used by Roots::Crowd2
const CROWD2_POS: u32 = BLOCK_SIZE as u32 + 256 * 40;

fn make_roots(rng: &mut StdRng, fb: &FBase, kind: Roots) -> (Vec<u32>, Vec<u32>) {
    let mut r1 = vec![];
    let mut r2 = vec![];
    let shift: u64 = rng.gen_range(0..1 << 40);
    for i in 0..fb.len() {
        let p = fb.p(i);
        let big = p >= 1 << 15; // bucket classes: two distinct roots required
        let (a, b) = match kind {
            Roots::Real => {
                let s = fb.r(i) as u64;
                let sh = shift % p as u64;
                let a = ((s + p as u64 - sh) % p as u64) as u32;
                let b = ((2 * p as u64 - s - sh) % p as u64) as u32;
                (a, b)
            }
            Roots::Zero => (0, if big { 1 } else { 0 }),
            Roots::Top => (p - 1, if big { p - 2 } else { p - 1 }),
            Roots::Single => {
                let a = rng.gen_range(0..p);
                (a, if big { (a + 1 + rng.gen_range(0..p - 1)) % p } else { a })
            }
            Roots::Random => (rng.gen_range(0..p), rng.gen_range(0..p)),
            Roots::Crowd2 => (rng.gen_range(0..p), rng.gen_range(0..p)),
            Roots::Crowd => {
                if big {
                    let a = 1000 + rng.gen_range(0..100);
                    (a, a + 1 + rng.gen_range(0..100))
                } else {
                    (rng.gen_range(0..p), rng.gen_range(0..p))
                }
            }
        };
        let b = if big && a == b { (a + 1) % p } else { b };
        r1.push(a);
        r2.push(b);
    }
    if kind == Roots::Crowd2 {
        // the last (largest-index) 40 primes of the bucket class that holds the most primes above the planted position
        let mut by_class: std::collections::BTreeMap<u32, Vec<usize>> = Default::default();
        for i in 0..fb.len() {
            let p = fb.p(i);
            if p >= 1 << 15 && p < 1 << 18 && p > CROWD2_POS + 64 {
                by_class.entry(32 - p.leading_zeros()).or_default().push(i);
            }
        }
        if let Some(idxs) = by_class.values().max_by_key(|v| v.len()) {
            let take = idxs.len().min(40);
            for (j, &i) in idxs[idxs.len() - take..].iter().enumerate() {
                r1[i] = CROWD2_POS + (j as u32) / 2;
                if r2[i] / 256 == r1[i] / 256 || r2[i] == r1[i] {
                    r2[i] = (r1[i] + 1000) % fb.p(i);
                }
            }
        }
    }
    (r1, r2)
}

fn novf(s: &Sieve) -> Value {
    json!(sieve::vhook::n_overflows(s).iter().map(|&(l, n, k)| json!({"log": l, "n": n.min(1 << 30), "slots": k})).collect::<Vec<_>>())
}

struct Plan {
    thr: u8,
    root: Option<u32>,
    max_rep: usize,
    /// always log the reports of this block whose position lies in [lo, hi)
    focus: Option<(usize, u32, u32)>,
    /// also log up to max_rep reports per block at which a prime >= 2^18 divides on its second or later
    /// hit in the interval (chosen from the root tables, i.e. from the inputs, not from what the sieve lists)
    vlarge_focus: bool,
}

/// sieves all blocks of `s`, logging a sample of the reports of each block
fn sieve_all(out: &mut Out, rng: &mut StdRng, case: &str, s: &mut Sieve, r1: &[u32], r2: &[u32], plan: &Plan) -> bool {
    let nb = s.nblocks;
    // primes >= 2^18 with their roots (for the vlarge focus)
    let vl: Vec<(u64, u64, u64)> = if plan.vlarge_focus {
        // (for bases above 2^16 primes: the primes whose index does not fit 16 bits)
        let big = s.fbase.len() > 65536;
        (0..s.fbase.len())
            .filter(|&i| if big { i >= 65536 } else { s.fbase.p(i) >= 1 << 18 })
            .map(|i| (s.fbase.p(i) as u64, r1[i] as u64, r2[i] as u64))
            .collect()
    } else {
        vec![]
    };
    for _ in 0..nb {
        let b = s.blk_no;
        let r = guard(|| {
            s.sieve_block();
            s.smooths(plan.thr, plan.root, [r1, r2])
        });
        let (idxs, facss) = match r {
            Ok(x) => x,
            Err(mut e) => {
                e["op"] = json!("block");
                e["case"] = json!(case);
                e["b"] = json!(b);
                out.ev(e);
                return false;
            }
        };
        let nrep = idxs.len();
        // sample: first, last, and up to max_rep others
        let mut pick: Vec<usize> = vec![];
        if nrep > 0 {
            pick.push(0);
            pick.push(nrep - 1);
            for _ in 0..plan.max_rep {
                pick.push(rng.gen_range(0..nrep));
            }
            if let Some((fb_, lo, hi)) = plan.focus {
                if fb_ == b {
                    for (j, &i) in idxs.iter().enumerate() {
                        if (i as u32) >= lo && (i as u32) < hi {
                            pick.push(j);
                        }
                    }
                }
            }
            if plan.vlarge_focus {
                let mut cnt = 0;
                for (j, &i) in idxs.iter().enumerate() {
                    let pos = (b * BLOCK_SIZE) as u64 + i as u64;
                    let later = s.fbase.len() <= 65536; // second or later hit only matters for the multi-hit scenario
                    let hit = vl.iter().any(|&(p, a, c)| (!later || pos >= p) && (pos % p == a || pos % p == c));
                    if hit {
                        pick.push(j);
                        cnt += 1;
                        if cnt >= plan.max_rep {
                            break;
                        }
                    }
                }
            }
            pick.sort();
            pick.dedup();
        }
        let reports: Vec<Value> = pick.iter().map(|&j| json!([idxs[j], facss[j]])).collect();
        out.ev(json!({"op": "block", "case": case, "b": b, "thr": plan.thr, "root": plan.root.map(|x| x as i64).unwrap_or(-1).max(0),
                      "hasroot": plan.root.is_some(), "nrep": nrep, "reports": reports, "offset": di64(s.offset)}));
        s.next_block();
    }
    true
}

#[allow(clippy::too_many_arguments)]
fn new_sieve<'a>(
    out: &mut Out,
    case: &str,
    fb: &'a FBase,
    r1: &[u32],
    r2: &[u32],
    nblocks: usize,
    offset: i64,
    rec: Option<SieveRecycle>,
    kind: &str,
) -> Option<Sieve<'a>> {
    let recycled = rec.is_some();
    match guard(|| Sieve::new(offset, nblocks, fb, [r1, r2], rec)) {
        Ok(s) => {
            let (bw, bcap) = sieve::vhook::bucket_params();
            out.ev(json!({"op": "new", "case": case, "r1": r1, "r2": r2, "nblocks": nblocks, "offset": di64(offset),
                          "recycled": recycled, "roots": kind, "novf": novf(&s), "bw": bw, "bcap": bcap}));
            Some(s)
        }
        Err(mut e) => {
            e["op"] = json!("new");
            e["case"] = json!(case);
            e["roots"] = json!(kind);
            out.ev(e);
            None
        }
    }
}

fn kind_name(k: Roots) -> &'static str {
    match k {
        Roots::Real => "real",
        Roots::Zero => "zero",
        Roots::Top => "top",
        Roots::Single => "single",
        Roots::Random => "random",
        Roots::Crowd => "crowd",
        Roots::Crowd2 => "crowd2",
    }
}

pub fn run(args: &Args) -> i32 {
    let seed = arg_u64(args, "seed", 1);
    let thorough = arg_str(args, "tier", "quick") == "thorough";
    let mut out = Out::create(arg_str(args, "out", "trace.ndjson"));
    let mut rng = rng_for(seed, "c13");
    // factor base sizes: fewer than 16 primes, then largest prime just across 2^13, 2^15, 2^16 (2^19 thorough)
    let mut sizes: Vec<(u32, usize)> = vec![(8, 60), (560, 60), (1850, 40), (3400, 25)];
    if thorough {
        sizes = vec![(8, 60), (16, 60), (560, 60), (1850, 40), (3400, 30), (23000, 5)];
    }
    for (fi, &(fbsize, max_rep)) in sizes.iter().enumerate() {
        let n = rand_bits(&mut rng, 120) | Uint::ONE;
        let fb = FBase::new(Int::cast_from(n), fbsize);
        let mut ci = 0;
        let mut newcase = |out: &mut Out, what: &str| -> String {
            ci += 1;
            let case = format!("fb{}/{}/{}", fbsize, ci, what);
            out.ev(json!({"op": "fb", "case": case, "primes": fb.primes, "size": fbsize, "bound": fb.bound(),
                          "check": if fb.len() > 5000 { "sample" } else { "all" }}));
            case
        };
        // 1. fresh sieves: every root shape x interval lengths x thresholds
        let shapes = [Roots::Real, Roots::Zero, Roots::Top, Roots::Single, Roots::Random, Roots::Crowd, Roots::Crowd2];
        for (ki, &kind) in shapes.iter().enumerate() {
            let nbs: Vec<usize> = match (thorough, kind) {
                (_, Roots::Real) => vec![1, 2, 3, 8],
                (_, Roots::Crowd2) => vec![2, 4],
                (true, _) => vec![1, 3],
                (false, _) => vec![[1, 2, 3][(ki + fi) % 3]],
            };
            for nblocks in nbs {
                let case = newcase(&mut out, kind_name(kind));
                let (r1, r2) = make_roots(&mut rng, &fb, kind);
                let offset = if rng.gen_bool(0.5) { -((nblocks * BLOCK_SIZE) as i64) / 2 } else { 0 };
                if let Some(mut s) = new_sieve(&mut out, &case, &fb, &r1, &r2, nblocks, offset, None, kind_name(kind)) {
                    // low threshold: many reports; with and without the root compensation
                    let thr = if kind == Roots::Crowd2 { 24u8 } else { [24u8, 40, 60][rng.gen_range(0..3)] };
                    let root = if kind != Roots::Crowd2 && rng.gen_bool(0.4) { Some(rng.gen_range(0..(nblocks * BLOCK_SIZE / 2) as u32)) } else { None };
                    sieve_all(&mut out, &mut rng, &case, &mut s, &r1, &r2, &Plan { thr, root, max_rep, focus: if kind == Roots::Crowd2 { Some((1, CROWD2_POS - BLOCK_SIZE as u32, CROWD2_POS - BLOCK_SIZE as u32 + 20)) } else { None }, vlarge_focus: false });
                }
            }
        }
        // 2. recycled state across 4 polynomials with different root shapes (same base, same length)
        for nblocks in if thorough { vec![1usize, 2, 4] } else { vec![2usize] } {
            let case = newcase(&mut out, "recycle");
            let mut rec: Option<SieveRecycle> = None;
            for kind in [Roots::Crowd, Roots::Real, Roots::Random, Roots::Real, Roots::Top] {
                let (r1, r2) = make_roots(&mut rng, &fb, kind);
                let offset = -((nblocks * BLOCK_SIZE) as i64) / 2;
                match new_sieve(&mut out, &case, &fb, &r1, &r2, nblocks, offset, rec.take(), kind_name(kind)) {
                    Some(mut s) => {
                        sieve_all(&mut out, &mut rng, &case, &mut s, &r1, &r2, &Plan { thr: 36, root: None, max_rep, focus: None, vlarge_focus: false });
                        rec = Some(s.recycle());
                    }
                    None => break,
                }
            }
        }
        // 3. classical sieve: rehash after shifting the roots by one large block, several times
        {
            let nblocks = 2usize;
            let case = newcase(&mut out, "rehash");
            let (mut r1, mut r2) = make_roots(&mut rng, &fb, Roots::Real);
            if let Some(mut s) = new_sieve(&mut out, &case, &fb, &r1, &r2, nblocks, 0, None, "real") {
                for round in 0..3 {
                    if round > 0 {
                        // on the shifted interval x + L the roots are r - L mod p
                        let l = (nblocks * BLOCK_SIZE) as u64;
                        for i in 0..fb.len() {
                            let p = fb.p(i) as u64;
                            r1[i] = ((r1[i] as u64 + p - l % p) % p) as u32;
                            r2[i] = ((r2[i] as u64 + p - l % p) % p) as u32;
                        }
                        match guard(|| s.rehash([&r1[..], &r2[..]])) {
                            Ok(_) => {
                                let (bw, bcap) = sieve::vhook::bucket_params();
                                out.ev(json!({"op": "rehash", "case": case, "r1": r1, "r2": r2, "novf": novf(&s), "bw": bw, "bcap": bcap}))
                            }
                            Err(mut e) => {
                                e["op"] = json!("rehash");
                                e["case"] = json!(case);
                                out.ev(e);
                                break;
                            }
                        }
                    }
                    if !sieve_all(&mut out, &mut rng, &case, &mut s, &r1, &r2, &Plan { thr: 40, root: None, max_rep, focus: None, vlarge_focus: false }) {
                        break;
                    }
                }
            }
        }
    }
    // 4. very large primes (>= 2^18) in an interval longer than 8 blocks: such a prime hits the interval
    //    more than once per root; the reports checked are chosen (from the root tables) among those where a
    //    very large prime divides on its second or later hit.  No loss is tolerated in that class.
    {
        let n = rand_bits(&mut rng, 160) | Uint::ONE;
        let fb = FBase::new(Int::cast_from(n), 12000);
        for (ci, nblocks) in [(1usize, 12usize), (2, 16)] {
            if !thorough && ci == 2 {
                continue;
            }
            let case = format!("fb12000/{}/vlarge", ci);
            out.ev(json!({"op": "fb", "case": case, "primes": fb.primes, "size": 12000, "bound": fb.bound(), "check": "sample"}));
            let (r1, r2) = make_roots(&mut rng, &fb, if ci == 1 { Roots::Real } else { Roots::Random });
            let offset = -((nblocks * BLOCK_SIZE) as i64) / 2;
            if let Some(mut s) = new_sieve(&mut out, &case, &fb, &r1, &r2, nblocks, offset, None, "real") {
                sieve_all(&mut out, &mut rng, &case, &mut s, &r1, &r2,
                          &Plan { thr: 24, root: None, max_rep: 6, focus: None, vlarge_focus: true });
            }
        }
    }
    // 5. a factor base with more than 2^16 primes: the very-large-prime tables keep only 16 bits of a prime index
    //    and `smooths` has to walk the aliases; the reports checked are chosen (from the root tables) among those
    //    where a prime of index >= 65536 divides.
    {
        let n = rand_bits(&mut rng, 200) | Uint::ONE;
        let fb = FBase::new(Int::cast_from(n), 70000);
        if fb.len() > 66000 {
            let nblocks = 4usize;
            let case = "fb70000/1/alias".to_string();
            out.ev(json!({"op": "fb", "case": case, "primes": fb.primes, "size": 70000, "bound": fb.bound(), "check": "top"}));
            let (r1, r2) = make_roots(&mut rng, &fb, Roots::Real);
            let offset = -((nblocks * BLOCK_SIZE) as i64) / 2;
            if let Some(mut s) = new_sieve(&mut out, &case, &fb, &r1, &r2, nblocks, offset, None, "real") {
                sieve_all(&mut out, &mut rng, &case, &mut s, &r1, &r2,
                          &Plan { thr: 24, root: None, max_rep: 6, focus: None, vlarge_focus: true });
            }
        }
    }
    let n = out.finish();
    println!("{}", json!({"events": n}));
    0
}
