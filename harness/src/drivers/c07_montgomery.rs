//! C07 driver: Montgomery arithmetic (ZmodN, 64-bit mg_*, 128-bit M128) on operand shapes
//! enumerated by spec/montgomery/MontShapes.tla.

use rand::rngs::StdRng;
use rand::Rng;
use serde_json::{json, Value};

use yamaquasi::arith_montgomery::{self as am, MInt, ZmodN};
use yamaquasi::ecm128::vhook as m128;

use crate::gen::{rand_below, rand_bits, rng_for, Uint};
use crate::trace::*;

fn to_mint(x: &Uint) -> MInt {
    let mut m = MInt::default();
    m.0.copy_from_slice(&x.digits()[..8]);
    m
}

fn from_mint(m: &MInt) -> Uint {
    Uint::from(*m)
}

fn pow2(k: u32) -> Uint {
    Uint::ONE << k
}

/// modulus of `k` words for a shape; at most 500 bits (documented limit)
fn modulus(rng: &mut StdRng, k: u32, shape: &str) -> Uint {
    let top = std::cmp::min(64 * k, 500); // bit length of the largest moduli of this word count
    let small = |rng: &mut StdRng| Uint::from(rng.gen_range(0u64..2000));
    let mut n = match shape {
        "max_minus" => pow2(top) - Uint::ONE - small(rng),
        "half_plus" => pow2(top - 1) + small(rng),
        "ones" => pow2(top) - Uint::ONE,
        "topbit" => pow2(top - 1) + Uint::ONE,
        "smallest" => {
            if k == 1 {
                Uint::from(3u64) + small(rng)
            } else {
                pow2(64 * (k - 1)) + small(rng)
            }
        }
        "random" => rand_bits(rng, top),
        "shortbits" => {
            let lo = 64 * (k - 1) + 1;
            let b = rng.gen_range(lo..top);
            rand_bits(rng, std::cmp::max(b, 2))
        }
        "smallfactor" => {
            let b = std::cmp::max(top.saturating_sub(7), 2);
            let m = rand_bits(rng, b) | Uint::ONE;
            let c = m * Uint::from(105u64);
            if c.bits() <= top && c.bits() > 64 * (k - 1) {
                c
            } else {
                Uint::from(105u64)
            }
        }
        _ => panic!("unknown modulus shape {}", shape),
    };
    n |= Uint::ONE;
    if n < Uint::from(3u64) {
        n = Uint::from(3u64);
    }
    n
}

fn operand(rng: &mut StdRng, n: &Uint, k: u32, shape: &str) -> Uint {
    let one = Uint::ONE;
    let x = match shape {
        "zero" => Uint::ZERO,
        "one" => one,
        "nm1" => *n - one,
        "nm2" => *n - Uint::from(2u64),
        "rmodn" => pow2(64 * k) % *n,
        "lowones" => {
            // all-ones low words, random top word
            let low = if k > 1 { pow2(64 * (k - 1)) - one } else { Uint::from(0xffff_ffffu64) };
            (rand_below(rng, n) | low) % *n
        }
        "random" => rand_below(rng, n),
        "highones" => (pow2(n.bits() - 1) - one) % *n,
        "half" => *n >> 1,
        _ => panic!("unknown operand shape {}", shape),
    };
    debug_assert!(x < *n);
    x
}

fn merge(mut base: Value, r: Result<Value, Value>) -> Value {
    let extra = match r {
        Ok(v) => v,
        Err(v) => v,
    };
    if let (Some(b), Some(e)) = (base.as_object_mut(), extra.as_object()) {
        for (k, v) in e {
            b.insert(k.clone(), v.clone());
        }
    }
    base
}

pub fn run(args: &Args) -> i32 {
    let seed = arg_u64(args, "seed", 1);
    let reps = arg_u64(args, "reps", 1);
    let shapes = read_ndjson(arg_str(args, "shapes", "shapes.ndjson"));
    let mut out = Out::create(arg_str(args, "out", "trace.ndjson"));
    let mut rng = rng_for(seed, "c07");
    for (si, sh) in shapes.iter().enumerate() {
        let k = sh["k"].as_u64().unwrap() as u32;
        let nshape = sh["n"].as_str().unwrap();
        let xs = sh["x"].as_str().unwrap();
        let ys = sh["y"].as_str().unwrap();
        let op = sh["op"].as_str().unwrap();
        for rep in 0..reps {
            let n = modulus(&mut rng, k, nshape);
            let x = operand(&mut rng, &n, (n.bits() + 63) / 64, xs);
            let y = operand(&mut rng, &n, (n.bits() + 63) / 64, ys);
            let case = format!("{}/{}", si, rep);
            let base = |opn: &str| json!({"op": opn, "case": case, "shape": sh, "n": dn(&n), "nd": n.to_string()});
            let zn = match guard(|| ZmodN::new(n)) {
                Ok(z) => z,
                Err(e) => {
                    out.ev(merge(base("zn_new"), Err(e)));
                    continue;
                }
            };
            let kk = zn.words() as u32;
            match op {
                "conv" => {
                    let r = guard(|| {
                        let m = zn.from_int(x);
                        let back = zn.to_int(m);
                        json!({"k": kk, "x": dn(&x), "m": dn(&from_mint(&m)), "back": dn(&back),
                               "o": dn(&from_mint(&zn.one())), "z": dn(&from_mint(&zn.zero()))})
                    });
                    out.ev(merge(base("zn_conv"), r));
                }
                "mul" | "sqr" => {
                    let (a, b) = if op == "sqr" { (x, x) } else { (x, y) };
                    let r = guard(|| {
                        let r = zn.mul(to_mint(&a), to_mint(&b));
                        json!({"r": dn(&from_mint(&r))})
                    });
                    out.ev(merge(merge(base("zn_mul"), Ok(json!({"a": dn(&a), "b": dn(&b)}))), r));
                    if n.bits() <= 64 {
                        // 64-bit variant on the same operands
                        let n64 = n.digits()[0];
                        let (a64, b64) = (a.digits()[0], b.digits()[0]);
                        let xx: u128 = if xs == "nm1" && ys == "nm1" {
                            ((n64 as u128) << 64) - 1 - rng.gen_range(0..1000) as u128
                        } else {
                            a64 as u128 * b64 as u128
                        };
                        let r = guard(|| {
                            let ninv = am::mg_2adic_inv(n64);
                            let r = am::mg_mul(n64, ninv, a64, b64);
                            let rd = am::mg_redc(n64, ninv, xx);
                            let r1 = ((1u128 << 64) % n64 as u128) as u64;
                            let r2 = ((r1 as u128 * r1 as u128) % n64 as u128) as u64;
                            let inv = am::mg_inv(n64, ninv, r2, a64);
                            json!({"ninv": du(ninv), "r": du(r), "x": du128(xx), "rd": du(rd),
                                   "inv_some": inv.is_some(), "inv": du(inv.unwrap_or(0))})
                        });
                        out.ev(merge(merge(base("mg64"), Ok(json!({"a": du(a64), "b": du(b64)}))), r));
                    }
                    if n.bits() <= 128 {
                        let n128 = n.digits()[0] as u128 | (n.digits()[1] as u128) << 64;
                        let lo = |v: &Uint| v.digits()[0] as u128 | (v.digits()[1] as u128) << 64;
                        let (a1, b1) = (lo(&a), lo(&b));
                        let r = guard(|| {
                            let ninv = m128::m128_inv_2adic(n128);
                            let (r1, r2) = m128::m128_r_r2(n128, ninv);
                            let r = m128::m128_mul(n128, ninv, a1, b1);
                            let s = m128::m128_add(n128, a1, b1);
                            let d = m128::m128_sub(n128, a1, b1);
                            let rz = zn.mul(to_mint(&a), to_mint(&b));
                            let sz = zn.add(to_mint(&a), to_mint(&b));
                            let dz = zn.sub(to_mint(&a), to_mint(&b));
                            json!({"ninv": du128(ninv), "r1": du128(r1), "r2": du128(r2), "r": du128(r),
                                   "s": du128(s), "d": du128(d), "rz": dn(&from_mint(&rz)),
                                   "sz": dn(&from_mint(&sz)), "dz": dn(&from_mint(&dz))})
                        });
                        out.ev(merge(merge(base("m128"), Ok(json!({"a": du128(a1), "b": du128(b1)}))), r));
                    }
                }
                "addsub" => {
                    let r = guard(|| {
                        let s = zn.add(to_mint(&x), to_mint(&y));
                        let d = zn.sub(to_mint(&x), to_mint(&y));
                        json!({"s": dn(&from_mint(&s)), "d": dn(&from_mint(&d))})
                    });
                    out.ev(merge(merge(base("zn_addsub"), Ok(json!({"a": dn(&x), "b": dn(&y)}))), r));
                }
                "inv" => {
                    let mut a = x;
                    if nshape == "smallfactor" && (xs == "random" || xs == "half" || xs == "lowones") {
                        // make the operand share a factor with n
                        let f = [3u64, 5, 7, 15, 21, 35, 105][rng.gen_range(0..7)];
                        a = (a / Uint::from(f)) * Uint::from(f);
                    }
                    let r = guard(|| {
                        let i = zn.inv(to_mint(&a));
                        json!({"some": i.is_some(), "r": dn(&i.map(|m| from_mint(&m)).unwrap_or(Uint::ZERO))})
                    });
                    out.ev(merge(merge(base("zn_inv"), Ok(json!({"a": dn(&a)}))), r));
                }
                "redc" => {
                    // x*y < n^2 < n*R, or the largest admissible value n*R - 1 - small
                    let xx: Uint = if xs == "nm1" {
                        (n << (64 * kk)) - Uint::ONE - Uint::from(rng.gen_range(0u64..1000))
                    } else {
                        x * operand(&mut rng, &n, kk, "random")
                    };
                    let mut w = [0u64; 16];
                    w.copy_from_slice(&xx.digits()[..16]);
                    let r = guard(|| {
                        let r = zn.redc(&w);
                        json!({"r": dn(&from_mint(&r))})
                    });
                    out.ev(merge(merge(base("zn_redc"), Ok(json!({"x": dn(&xx), "via": "redc"}))), r));
                }
                "redc_large" => {
                    // values up to 23 words with high part < n*R (FFT convolution outputs)
                    let b = operand(&mut rng, &n, kk, "random");
                    let c = operand(&mut rng, &n, kk, "random");
                    let c = if kk == 8 { c >> 64 } else { c };
                    let p = bnum::types::U2048::from_digits({
                        let mut d = [0u64; 32];
                        d[..16].copy_from_slice(&(x * b).digits()[..]);
                        d
                    }) * bnum::types::U2048::from_digits({
                        let mut d = [0u64; 32];
                        d[..16].copy_from_slice(&c.digits()[..]);
                        d
                    });
                    let len = std::cmp::max(((p.bits() + 63) / 64) as usize, kk as usize);
                    let len = std::cmp::min(len, 23);
                    let w: Vec<u64> = p.digits()[..len].to_vec();
                    let r = guard(|| {
                        let r = zn.redc_large(&w);
                        json!({"r": dn(&from_mint(&r))})
                    });
                    out.ev(merge(merge(base("zn_redc"), Ok(json!({"x": dn(&p), "via": "redc_large"}))), r));
                }
                "gcd" => {
                    let mut a = x;
                    if nshape == "smallfactor" && (xs == "random" || xs == "half") {
                        let f = [3u64, 5, 7, 15, 21, 35, 105][rng.gen_range(0..7)];
                        a = (a / Uint::from(f)) * Uint::from(f);
                    }
                    let r = guard(|| {
                        let g = zn.gcd(&to_mint(&a));
                        json!({"g": dn(&g)})
                    });
                    out.ev(merge(merge(base("zn_gcd"), Ok(json!({"a": dn(&a)}))), r));
                }
                _ => panic!("unknown op {}", op),
            }
        }
    }
    let n = out.finish();
    println!("{}", json!({"events": n}));
    0
}
