//! Self-test driver: certified primes of several sizes (validated by spec/selftest/CertsSelfTest.tla).
use serde_json::json;

use crate::gen::Pool;
use crate::trace::*;

pub fn run(args: &Args) -> i32 {
    let seed = arg_u64(args, "seed", 1);
    let mut out = Out::create(arg_str(args, "out", "trace.ndjson"));
    let mut pool = Pool::new(seed);
    for bits in [2u32, 3, 8, 16, 31, 32, 33, 40, 63, 64, 65, 100, 128] {
        let p = pool.prime(bits);
        out.ev(json!({"op": "chain", "bits": bits, "p": dn(&p), "chain": pool.chain_of(&p).unwrap()}));
    }
    // a deliberately wrong certificate must be rejected
    let p = pool.prime(40);
    let mut bad = pool.chain_of(&p).unwrap();
    let last = bad.as_array().unwrap().len() - 1;
    bad[last]["a"] = json!(1);
    out.ev(json!({"op": "badchain", "p": dn(&p), "chain": bad}));
    out.finish();
    0
}
