//! C11 driver: relation store (RelationSet), packed encoding (PackedRelation) and final_step.
//!
//! Modes (`--mode`):
//!   hist   replays abstract histories printed by spec/relstore/RelStore.tla into a real RelationSet.
//!          Every abstract relation is realised as a REAL valid relation for a real n = p*q (p, q = 3 mod 4):
//!          target T = +-prod small^e * large primes with every character trivial, x = sqrt(T) by CRT,
//!          so that only the store is under test.  After the history, one more single relation per large
//!          prime is inserted ("closing"), which forces every stored partial / double into a published
//!          relation.  Then final_step runs on the published set.
//!   pack   pushes relations of TLA+-enumerated shapes through pack/unpack.
//!   sieve  runs the real sieves (QS / MPQS / SIQS) and turns the `rel_add` hook events into events.
//! The driver never judges: natively computed facts are used only to stay inside preconditions
//! (inputs are valid relations; final_step is given at least one relation that survives its filter).

use std::collections::{BTreeMap, HashMap};
use std::str::FromStr;

use bnum::cast::CastFrom;
use rand::rngs::StdRng;
use rand::seq::SliceRandom;
use rand::Rng;
use serde_json::{json, Value};

use yamaquasi::fbase::FBase;
use yamaquasi::relations::{self, vhook, Relation, RelationSet};
use yamaquasi::{Algo, Int as YInt, Preferences, Verbosity};

use crate::gen::{is_prime_u64, mulmod, powmod, probably_prime, rand_bits, rng_for, Uint};
use crate::trace::*;

// ------------------------------------------------------------------------------------------
// encoding of relations for the trace
// ------------------------------------------------------------------------------------------

fn rel_value(r: &Relation) -> Value {
    let f: Vec<Value> = r
        .factors
        .iter()
        .map(|&(p, k)| {
            if p == -1 {
                json!({"m": true, "p": du(0), "k": k})
            } else {
                json!({"m": false, "p": du(p as u64), "k": k})
            }
        })
        .collect();
    json!({"x": dn(&r.x), "cof": du(r.cofactor), "len": r.cyclelen, "f": f})
}

/// exponents and cycle lengths are written as plain JSON integers: they must stay below 2^31
fn rel_fits(r: &Relation) -> bool {
    r.cyclelen < (1 << 31) && r.factors.iter().all(|&(p, k)| k < (1 << 31) && (p == -1 || p >= 0))
}

fn rel_from_hook(v: &Value) -> Relation {
    let x = Uint::from_str(v["x"].as_str().unwrap()).expect("decimal x");
    let f = v["f"].as_array().unwrap().iter().map(|t| (t[0].as_i64().unwrap(), t[1].as_u64().unwrap())).collect();
    Relation { x, cofactor: v["cof"].as_u64().unwrap(), cyclelen: v["len"].as_u64().unwrap(), factors: f }
}

/// x^2 = prod p^k * cofactor (mod n), with the harness's own arithmetic (input filter only)
fn native_valid(r: &Relation, n: &Uint) -> bool {
    let mut prod = Uint::from(r.cofactor) % *n;
    let mut neg = false;
    for &(p, k) in &r.factors {
        if p == -1 {
            if k % 2 == 1 {
                neg = !neg;
            }
        } else if p <= 0 {
            return false;
        } else {
            prod = mulmod(&prod, &powmod(&Uint::from(p as u64), &Uint::from(k), n), n);
        }
    }
    if neg && !prod.is_zero() {
        prod = *n - prod;
    }
    mulmod(&(r.x % *n), &(r.x % *n), n) == prod
}

/// Does at least one relation survive the singleton filter of final_step?  (precondition: with no
/// survivor final_step calls kernel_gauss on zero columns, the documented C03 edge)
fn some_survivor(rels: &[Relation], fb: &FBase) -> bool {
    let mut occ: HashMap<i64, u64> = HashMap::new();
    for r in rels {
        for &(f, k) in &r.factors {
            if k % 2 == 1 && (f == -1 || fb.idx(f as u32).is_some()) {
                *occ.entry(f).or_insert(0) += 1;
            }
        }
    }
    rels.iter().any(|r| r.factors.iter().all(|&(f, k)| k % 2 == 0 || occ.get(&f).copied().unwrap_or(0) > 1))
}

fn merge(mut base: Value, r: Result<Value, Value>) -> Value {
    let extra = match r {
        Ok(v) => v,
        Err(v) => v,
    };
    if let (Some(b), Some(e)) = (base.as_object_mut(), extra.as_object()) {
        for (k, v) in e {
            b.insert(k.clone(), v.clone());
        }
    }
    base
}

fn final_step_event(out: &mut Out, case: &str, src: &str, n: &Uint, fb: &FBase, rels: &[Relation]) {
    let base = json!({"op": "final_step", "case": case, "src": src, "n": dn(n), "nd": n.to_string(),
                      "nrels": rels.len(), "fb": fb.len()});
    let (n2, rels2) = (*n, rels.to_vec());
    let fb2 = fb.clone();
    let r = guard_deadline(1200.0, move || relations::final_step(&n2, &fb2, &rels2, Verbosity::Silent));
    let r = r.map(|divs| json!({"divs": divs.iter().map(dn).collect::<Vec<_>>(),
                                "divsd": divs.iter().map(|d| d.to_string()).collect::<Vec<_>>()}));
    out.ev(merge(base, r));
}

// ------------------------------------------------------------------------------------------
// hist mode
// ------------------------------------------------------------------------------------------

/// a modulus with the data needed to build valid relations
struct Ctx {
    n: Uint,
    ps: Vec<Uint>,       // prime factors, all = 3 mod 4
    fb: FBase,
    plus: Vec<i64>,      // factor base primes that are squares modulo every prime factor
    minus: Vec<i64>,     // -1 (if allowed) and factor base primes that are non-squares modulo every prime factor
}

fn prime_3mod4(rng: &mut StdRng, bits: u32) -> Uint {
    loop {
        let c = rand_bits(rng, bits) | Uint::from(3u64);
        if c.bits() == bits && probably_prime(rng, &c) {
            return c;
        }
    }
}

fn is_square_mod(a: &Uint, p: &Uint) -> bool {
    let e = (*p - Uint::ONE) >> 1;
    powmod(a, &e, p).is_one()
}

fn new_ctx(rng: &mut StdRng, nbits: u32, nfac: u32, fbsize: u32) -> Ctx {
    loop {
        let mut ps = vec![];
        let mut n = Uint::ONE;
        for i in 0..nfac {
            let b = if i + 1 == nfac { nbits - (nbits / nfac) * (nfac - 1) } else { nbits / nfac };
            let p = prime_3mod4(rng, b);
            n = n * p;
            ps.push(p);
        }
        ps.sort();
        ps.dedup();
        if ps.len() != nfac as usize {
            continue;
        }
        let fb = FBase::new(YInt::cast_from(n), fbsize);
        let (mut plus, mut minus) = (vec![], vec![]);
        if nfac == 2 {
            minus.push(-1); // -1 is a non-square modulo both prime factors
        }
        for &s in &fb.primes {
            let su = Uint::from(s as u64);
            let chars: Vec<bool> = ps.iter().map(|p| is_square_mod(&su, p)).collect();
            if chars.iter().all(|&c| c) {
                plus.push(s as i64);
            } else if chars.iter().all(|&c| !c) && nfac == 2 {
                minus.push(s as i64);
            }
        }
        if plus.len() >= 3 && (nfac != 2 || minus.len() >= 3) {
            return Ctx { n, ps, fb, plus, minus };
        }
    }
}

/// a prime above the factor base, below `hi`, that is a square modulo every prime factor of n
fn large_prime(rng: &mut StdRng, ctx: &Ctx, lo: u64, hi: u64) -> u64 {
    loop {
        let c = rng.gen_range(lo..hi) | 1;
        if c < hi && is_prime_u64(c) && ctx.ps.iter().all(|p| is_square_mod(&Uint::from(c), p)) {
            return c;
        }
    }
}

/// square root of t modulo n (t a square modulo every prime factor, all = 3 mod 4), random signs
fn sqrt_crt(rng: &mut StdRng, ctx: &Ctx, t: &Uint) -> Uint {
    let mut x = Uint::ZERO;
    let mut m = Uint::ONE;
    for p in &ctx.ps {
        let e = (*p + Uint::ONE) >> 2;
        let mut r = powmod(&(*t % *p), &e, p);
        if rng.gen_bool(0.5) && !r.is_zero() {
            r = *p - r;
        }
        // x' = x + m * ((r - x) / m mod p)
        let minv = powmod(&(m % *p), &(*p - Uint::from(2u64)), p);
        let d = ((r + *p) - (x % *p)) % *p;
        let k = mulmod(&d, &minv, p);
        x = x + m * k;
        m = m * *p;
    }
    x
}

/// odd set: even number of "minus" elements, non-empty
fn odd_vector(rng: &mut StdRng, ctx: &Ctx) -> Vec<i64> {
    loop {
        let mut v: Vec<i64> = vec![];
        let nplus = rng.gen_range(0..=2usize);
        let mut nminus = if ctx.minus.is_empty() { 0 } else { 2 * rng.gen_range(0..=1usize) };
        if nplus + nminus == 0 {
            continue;
        }
        nminus = nminus.min(ctx.minus.len() / 2 * 2);
        v.extend(ctx.plus.choose_multiple(rng, nplus.min(ctx.plus.len())).copied());
        // favour the sign among the minus elements: it is the special case of the encoding
        if nminus > 0 && ctx.minus[0] == -1 && rng.gen_bool(0.6) {
            v.push(-1);
            v.extend(ctx.minus[1..].choose_multiple(rng, nminus - 1).copied());
        } else {
            v.extend(ctx.minus.choose_multiple(rng, nminus).copied());
        }
        v.sort();
        v.dedup();
        if !v.is_empty() {
            return v;
        }
    }
}

fn xor_sets(a: &[i64], b: &[i64]) -> Vec<i64> {
    let mut v: Vec<i64> = a.iter().filter(|x| !b.contains(x)).copied().collect();
    v.extend(b.iter().filter(|x| !a.contains(x)).copied());
    v.sort();
    v
}

/// a real relation with the given odd set and cofactor
fn realise(rng: &mut StdRng, ctx: &Ctx, odd: &[i64], cofactor: u64) -> Relation {
    let mut exps: BTreeMap<i64, u64> = BTreeMap::new();
    for &s in odd {
        exps.insert(s, if s != -1 && rng.gen_bool(0.25) { 3 } else { 1 });
    }
    // even part
    let all: Vec<i64> = ctx.fb.primes.iter().map(|&p| p as i64).collect();
    for _ in 0..rng.gen_range(0..=3) {
        let s = *all.choose(rng).unwrap();
        let e = [2u64, 2, 4, 6][rng.gen_range(0..4)];
        *exps.entry(s).or_insert(0) += e;
    }
    if rng.gen_bool(0.08) {
        // exponents of two bytes in the compact form
        let s = all[0];
        *exps.entry(s).or_insert(0) += [126u64, 128, 130][rng.gen_range(0..3)];
    }
    if rng.gen_bool(0.05) && !odd.contains(&-1) {
        exps.insert(-1, 2); // an even power of the sign: dropped by the compact form
    }
    let mut t = Uint::from(cofactor) % ctx.n;
    let mut neg = false;
    let mut factors = vec![];
    for (&s, &e) in &exps {
        factors.push((s, e));
        if s == -1 {
            neg ^= e % 2 == 1;
        } else {
            t = mulmod(&t, &powmod(&Uint::from(s as u64), &Uint::from(e), &ctx.n), &ctx.n);
        }
    }
    if neg {
        t = ctx.n - t;
    }
    let x = sqrt_crt(rng, ctx, &t);
    let r = Relation { x, cofactor, cyclelen: 1, factors };
    assert!(native_valid(&r, &ctx.n), "harness built an invalid relation");
    r
}

fn odd_of(r: &Relation) -> Vec<i64> {
    let mut m: BTreeMap<i64, u64> = BTreeMap::new();
    for &(p, k) in &r.factors {
        *m.entry(p).or_insert(0) += k;
    }
    m.into_iter().filter(|&(_, k)| k % 2 == 1).map(|(p, _)| p).collect()
}

fn run_hist(args: &Args) -> i32 {
    let seed = arg_u64(args, "seed", 1);
    let hists = read_ndjson(arg_str(args, "hists", "hists.ndjson"));
    let pack_every = arg_u64(args, "pack-every", 4) as usize;
    let mut out = Out::create(arg_str(args, "out", "trace.ndjson"));
    let mut rng = rng_for(seed, "c11-hist");
    let mut ctx: Option<Ctx> = None;
    let sizes: [(u32, u32); 8] = [(64, 2), (80, 2), (96, 2), (128, 2), (112, 2), (99, 3), (190, 2), (256, 2)];
    for (hi, h) in hists.iter().enumerate() {
        // a new modulus every 40 histories
        if hi % 40 == 0 {
            let (nbits, nfac) = sizes[(hi / 40) % sizes.len()];
            let fbsize = [24u32, 32, 48][rng.gen_range(0..3)];
            ctx = Some(new_ctx(&mut rng, nbits, nfac, fbsize));
        }
        let ctx = ctx.as_ref().unwrap();
        let case = format!("{}-{}", arg_str(args, "tag", "h"), hi);
        let nlp = h["nlp"].as_u64().unwrap() as usize;
        let ops = h["h"].as_array().unwrap();
        // large primes: one history in 5 uses the top of the 32-bit range
        let top = hi % 5 == 0;
        let maxlarge: u64 = if top { (1u64 << 32) - 1 } else { [1u64 << 24, 1 << 28, 3_000_000_000][rng.gen_range(0..3)] };
        let lo = std::cmp::max(ctx.fb.bound() as u64 + 1, 1 << 16) + 1;
        let mut lps: Vec<u64> = vec![];
        while lps.len() < nlp {
            let c = if top && lps.is_empty() && ctx.ps.iter().all(|p| is_square_mod(&Uint::from(4294967291u64), p)) {
                4294967291u64 // largest prime below 2^32
            } else if top && rng.gen_bool(0.5) {
                large_prime(&mut rng, ctx, maxlarge - (1 << 20), maxlarge)
            } else {
                large_prime(&mut rng, ctx, lo, maxlarge)
            };
            if !lps.contains(&c) {
                lps.push(c);
            }
        }
        lps.sort();
        // parity generators
        let ngen = ops.iter().flat_map(|o| o["par"].as_array().unwrap().iter().map(|g| g.as_u64().unwrap())).max().unwrap_or(0).max(1) as usize;
        let mut gens: Vec<Vec<i64>> = vec![];
        while gens.len() < ngen {
            let v = odd_vector(&mut rng, ctx);
            // independent of the previous ones (at most 2 generators: distinct and non-zero is enough; for 3 also
            // exclude the sum of the first two)
            let dep = gens.contains(&v) || (gens.len() == 2 && xor_sets(&gens[0], &gens[1]) == v);
            if !dep {
                gens.push(v);
            }
        }
        let odd_for = |par: &[u64]| -> Vec<i64> { par.iter().fold(vec![], |acc, &g| xor_sets(&acc, &gens[g as usize - 1])) };
        let lpsd: Vec<Value> = lps.iter().map(|&p| du(p)).collect();
        out.ev(json!({"op": "reset", "case": case, "n": dn(&ctx.n), "nd": ctx.n.to_string(), "maxlarge": du(maxlarge),
                      "lps": lpsd, "lpsd": lps.iter().map(|p| p.to_string()).collect::<Vec<_>>(), "gens": gens, "model": {"cycles": h["cycles"], "partial": h["partial"], "doubles": h["doubles"]}}));
        let mut rs = RelationSet::new(ctx.n, ctx.fb.len(), maxlarge);
        let mut seen: Vec<(Value, Relation)> = vec![];
        let mut packed: Vec<Relation> = vec![];
        let mut dead = false;
        let mut id = 0;
        // the history, then the closing singles
        let mut queue: Vec<Value> = ops.clone();
        let mut closing = 0;
        loop {
            if dead {
                break;
            }
            let aop: Value = if id < queue.len() {
                queue[id].clone()
            } else if closing < nlp {
                closing += 1;
                let p = closing; // abstract index
                // a parity different from the stored partial's, so that the combination is published
                let stored = vhook::partial_get(&rs, lps[p - 1]).map(|r| odd_of(&r));
                let mut pars: Vec<Vec<u64>> = vec![vec![], vec![1]];
                if ngen >= 2 {
                    pars.push(vec![2]);
                    pars.push(vec![1, 2]);
                }
                pars.shuffle(&mut rng);
                let par = pars.iter().find(|pp| Some(odd_for(pp)) != stored).unwrap().clone();
                let v = json!({"k": "s", "p": p, "q": 0, "par": par});
                queue.push(v.clone());
                v
            } else {
                break;
            };
            id += 1;
            let kind = aop["k"].as_str().unwrap();
            let (ap, aq) = (aop["p"].as_u64().unwrap() as usize, aop["q"].as_u64().unwrap() as usize);
            let par: Vec<u64> = aop["par"].as_array().unwrap().iter().map(|g| g.as_u64().unwrap()).collect();
            let (cof, pq) = match kind {
                "c" => (1u64, None),
                "s" => (lps[ap - 1], None),
                "d" => (lps[ap - 1] * lps[aq - 1], Some((lps[ap - 1], lps[aq - 1]))),
                _ => panic!("bad op"),
            };
            // an operation repeated in the history is, half of the time, the very same relation (a duplicate)
            let dup = seen.iter().find(|(a, _)| *a == aop).map(|(_, r)| r.clone());
            let raw = match dup {
                Some(r) if rng.gen_bool(0.5) => r,
                _ => realise(&mut rng, ctx, &odd_for(&par), cof),
            };
            seen.push((aop.clone(), raw.clone()));
            let len0 = rs.cycles.len();
            let base = json!({"op": "add", "case": case, "id": id, "aop": aop, "closing": id > ops.len(),
                              "n": dn(&ctx.n), "maxlarge": du(maxlarge), "lps": lpsd, "raw": rel_value(&raw)});
            let raw2 = raw.clone();
            let res = guard(|| rs.add(raw2, pq));
            let res = res.map(|_| {
                let start = len0.min(rs.cycles.len());
                let published: Vec<Value> = rs.cycles[start..].iter().map(rel_value).collect();
                packed.extend(rs.cycles[start..].iter().cloned());
                json!({"pub": published, "cycles": rs.cycles.len(), "partial": vhook::partial_keys(&rs).len(),
                       "doubles": vhook::doubles_keys(&rs).len(), "rev": vhook::doubles_rev_keys(&rs).len()})
            });
            dead = res.is_err();
            packed.push(raw);
            out.ev(merge(base, res));
        }
        if dead {
            continue;
        }
        // compact form of everything that went through this history (sampled)
        if pack_every > 0 && hi % pack_every == 0 {
            for k in vhook::partial_keys(&rs) {
                packed.push(vhook::partial_get(&rs, k).unwrap());
            }
            for (j, r) in packed.iter().enumerate() {
                pack_event(&mut out, &format!("{}/p{}", case, j), "store", r);
            }
        }
        // final step on what was published
        let cycles = rs.cycles.clone();
        if !cycles.iter().all(|r| native_valid(r, &ctx.n)) {
            // outside the domain of final_step; the invalid relation is judged by the add event that published it
            out.ev(json!({"op": "skip", "case": case, "why": "a published relation is not a valid relation", "nrels": cycles.len()}));
        } else if !cycles.is_empty() && some_survivor(&cycles, &ctx.fb) {
            final_step_event(&mut out, &case, "hist", &ctx.n, &ctx.fb, &cycles);
        } else {
            out.ev(json!({"op": "skip", "case": case, "why": "no relation survives the singleton filter of final_step (C03 edge)",
                          "nrels": cycles.len()}));
        }
    }
    out.finish();
    0
}

// ------------------------------------------------------------------------------------------
// pack mode
// ------------------------------------------------------------------------------------------

fn pack_event(out: &mut Out, case: &str, src: &str, r: &Relation) {
    if !rel_fits(r) {
        return;
    }
    let base = json!({"op": "pack", "case": case, "src": src, "r": rel_value(r)});
    let r2 = r.clone();
    let res = guard(move || {
        let blob = vhook::pack_blob(r2);
        let u = vhook::unpack_blob(blob.clone());
        (blob, u)
    });
    let res = match res {
        Ok((blob, u)) if rel_fits(&u) => Ok(json!({"blob": blob, "u": rel_value(&u)})),
        Ok((blob, u)) => Ok(json!({"blob": blob, "outcome": "unrepresentable", "msg": format!("{:?}", u.factors)})),
        Err(e) => Err(e),
    };
    out.ev(merge(base, res));
}

fn word_of(rng: &mut StdRng, shape: &str) -> u64 {
    match shape {
        "zero" => 0,
        "one" => 1,
        "b7" => [127u64, 128, 129][rng.gen_range(0..3)],
        "b14" => [16383u64, 16384][rng.gen_range(0..2)],
        "b63" => (1u64 << 63) - 1 + rng.gen_range(0..2),
        "max" => u64::MAX,
        "pow7" => 1u64 << (7 * rng.gen_range(1..=9)),
        "pow7m1" => (1u64 << (7 * rng.gen_range(1..=9))) - 1,
        _ => rng.gen(),
    }
}

fn run_pack(args: &Args) -> i32 {
    let seed = arg_u64(args, "seed", 1);
    let shapes = read_ndjson(arg_str(args, "shapes", "packshapes.ndjson"));
    let reps = arg_u64(args, "reps", 1);
    let mut out = Out::create(arg_str(args, "out", "trace.ndjson"));
    let mut rng = rng_for(seed, "c11-pack");
    let smalls: [i64; 8] = [3, 5, 7, 11, 13, 127, 129 + 2, 16381];
    for (si, sh) in shapes.iter().enumerate() {
        for rep in 0..reps {
            // x: 8 words of the given shape (the compact form keeps 512 bits)
            let mut d = [0u64; 16];
            let xs = sh["x"].as_str().unwrap();
            for w in d.iter_mut().take(8) {
                *w = word_of(&mut rng, xs);
            }
            if xs == "mixed" {
                for (i, s) in ["zero", "max", "b7", "random", "pow7", "b63", "one", "pow7m1"].iter().enumerate() {
                    d[i] = word_of(&mut rng, s);
                }
            }
            let x = Uint::from_digits(d);
            let cofactor = word_of(&mut rng, sh["cof"].as_str().unwrap());
            let cyclelen = match sh["len"].as_str().unwrap() {
                "one" => 1,
                "b7" => [127u64, 128, 129][rng.gen_range(0..3)],
                _ => rng.gen_range(2..20),
            };
            let mut factors: Vec<(i64, u64)> = vec![];
            for f in sh["fs"].as_array().unwrap() {
                let p: i64 = match f["p"].as_str().unwrap() {
                    "neg" => -1,
                    "two" => 2,
                    "three" => 3,
                    "small" => *smalls.choose(&mut rng).unwrap(),
                    "p16" => 65537,
                    "p24" => 16777213,
                    "p31" => 2147483647,
                    "p32" => 4294967291,
                    _ => panic!("bad prime shape"),
                };
                let k: u64 = match f["k"].as_str().unwrap() {
                    "zero" => 0,
                    "one" => 1,
                    "two" => 2,
                    "three" => 3,
                    "b7lo" => 127,
                    "b7" => 128,
                    "b7hi" => 129,
                    "b14" => [16383u64, 16384][rng.gen_range(0..2)],
                    "big" => (1u64 << 29) - 1, // sums of a few of these stay below 2^31 (TLC integers)
                    _ => panic!("bad exponent shape"),
                };
                if k == 0 && p != -1 {
                    continue; // pack requires k > 0 for primes (asserted; never produced by the sieves)
                }
                factors.push((p, k));
            }
            let r = Relation { x, cofactor, cyclelen, factors };
            pack_event(&mut out, &format!("s{}/{}", si, rep), "shape", &r);
        }
    }
    out.finish();
    0
}

// ------------------------------------------------------------------------------------------
// sieve mode
// ------------------------------------------------------------------------------------------

fn random_prime(rng: &mut StdRng, bits: u32) -> Uint {
    loop {
        let c = rand_bits(rng, bits) | Uint::ONE;
        if probably_prime(rng, &c) {
            return c;
        }
    }
}

fn run_sieve(args: &Args) -> i32 {
    let seed = arg_u64(args, "seed", 1);
    let thorough = arg_str(args, "tier", "quick") == "thorough";
    let max_rel = arg_u64(args, "max-rel", if thorough { 100000 } else { 400 }) as usize;
    let max_raw = arg_u64(args, "max-raw", if thorough { 400 } else { 100 }) as usize;
    let mut out = Out::create(arg_str(args, "out", "trace.ndjson"));
    let mut rng = rng_for(seed, "c11-sieve");
    // (bits, algorithm, use_double, threads, large_factor override: small inputs use no large primes by default)
    let mut runs: Vec<(u32, Algo, bool, usize, Option<u64>)> = vec![
        (60, Algo::Qs, false, 1, None),
        (72, Algo::Qs, true, 4, Some(40)),
        (80, Algo::Mpqs, false, 4, Some(60)),
        (96, Algo::Mpqs, true, 1, Some(30)),
        (100, Algo::Siqs, true, 4, Some(50)),
        (110, Algo::Siqs, false, 1, None),
        (128, Algo::Siqs, true, 4, None),
    ];
    if thorough {
        runs.extend([
            (66, Algo::Mpqs, true, 1, Some(100)),
            (84, Algo::Qs, true, 1, Some(20)),
            (100, Algo::Qs, false, 4, None),
            (100, Algo::Mpqs, true, 4, None),
            (104, Algo::Siqs, true, 1, Some(200)),
            (110, Algo::Siqs, true, 4, None),
            (76, Algo::Siqs, false, 4, Some(25)),
            (120, Algo::Siqs, true, 4, None),
            (140, Algo::Siqs, true, 4, None),
            (150, Algo::Siqs, false, 4, None),
        ]);
    }
    for (ri, &(bits, alg, use_double, threads, large_factor)) in runs.iter().enumerate() {
        let case = format!("sv{}-{:?}-{}b-d{}-t{}", ri, alg, bits, use_double as u8, threads);
        let (p, q) = (random_prime(&mut rng, bits / 2), random_prime(&mut rng, bits - bits / 2));
        let n = p * q;
        yamaquasi::verif::start();
        let res = guard_deadline(1800.0, move || {
            let mut prefs = Preferences::default();
            prefs.verbosity = Verbosity::Silent;
            prefs.use_double = Some(use_double);
            prefs.large_factor = large_factor;
            prefs.threads = if threads > 1 { Some(threads) } else { None };
            yamaquasi::factor(n, alg, &prefs).map_err(|e| format!("{:?}", e))
        });
        let evs = yamaquasi::verif::stop();
        let mut nadd = 0usize;
        let mut kinds: HashMap<String, usize> = HashMap::new();
        let mut cycles: Vec<Relation> = vec![];
        let mut store_n: Option<Uint> = None;
        let mut rels: Vec<(Relation, Uint)> = vec![];
        let mut raws: Vec<(Relation, Uint)> = vec![];
        let mut bad_raws: Vec<(Relation, Uint)> = vec![];
        let mut maxsmall = 0i64;
        let mut last = (0u64, 0u64, 0u64);
        for s in &evs {
            if !s.contains("\"op\":\"rel_add\"") {
                continue;
            }
            let v: Value = serde_json::from_str(s).expect("hook event is not JSON");
            let sn = Uint::from_str(v["n"].as_str().unwrap()).unwrap();
            store_n = Some(sn);
            if v["ph"] == "enter" {
                nadd += 1;
                *kinds.entry(v["kind"].as_str().unwrap().to_string()).or_insert(0) += 1;
                let r = rel_from_hook(&v["rel"]);
                for &(p, _) in &r.factors {
                    maxsmall = maxsmall.max(p);
                }
                if native_valid(&r, &sn) {
                    raws.push((r, sn));
                } else {
                    bad_raws.push((r, sn));
                }
            } else {
                for pr in v["pub"].as_array().unwrap() {
                    let r = rel_from_hook(pr);
                    cycles.push(r.clone());
                    rels.push((r, sn));
                }
                last = (v["cycles"].as_u64().unwrap(), v["partial"].as_u64().unwrap(), v["doubles"].as_u64().unwrap());
            }
        }
        let outcome = match &res {
            Ok(Ok(fs)) => json!({"factors": fs.iter().map(|f| f.to_string()).collect::<Vec<_>>()}),
            Ok(Err(e)) => json!({"failed": e}),
            Err(e) => e.clone(),
        };
        let by_len = |lo: u64, hi: u64| rels.iter().filter(|(r, _)| r.cyclelen >= lo && r.cyclelen <= hi).count();
        out.ev(json!({"op": "reset", "case": case, "run": {"alg": format!("{:?}", alg), "bits": bits, "use_double": use_double,
                      "threads": threads, "large_factor": large_factor.unwrap_or(0), "nd": n.to_string(), "adds": nadd, "kinds": kinds, "published": rels.len(),
                      "len1": by_len(1, 1), "len2": by_len(2, 2), "len3plus": by_len(3, u64::MAX),
                      "cycles": last.0, "partial": last.1, "doubles": last.2, "invalid_raws": bad_raws.len(), "result": outcome}}));
        // inputs that are not valid relations (none expected): the spec decides (witness)
        for (j, (r, sn)) in bad_raws.iter().enumerate() {
            out.ev(json!({"op": "raw", "case": format!("{}/bad{}", case, j), "n": dn(sn), "nd": sn.to_string(), "r": rel_value(r)}));
        }
        if !bad_raws.is_empty() {
            continue; // nothing is known about what the store made of invalid inputs
        }
        // a sample of the inputs
        let mut idx: Vec<usize> = (0..raws.len()).collect();
        idx.shuffle(&mut rng);
        for &j in idx.iter().take(max_raw) {
            let (r, sn) = &raws[j];
            out.ev(json!({"op": "raw", "case": format!("{}/raw{}", case, j), "n": dn(sn), "nd": sn.to_string(), "r": rel_value(r)}));
        }
        // published relations: all the combined ones first (cycle length >= 2), then plain ones, up to max_rel
        let mut order: Vec<usize> = (0..rels.len()).collect();
        order.shuffle(&mut rng);
        order.sort_by_key(|&j| std::cmp::Reverse(rels[j].0.cyclelen.min(3)));
        for &j in order.iter().take(max_rel) {
            let (r, sn) = &rels[j];
            out.ev(json!({"op": "rel", "case": format!("{}/rel{}", case, j), "n": dn(sn), "nd": sn.to_string(),
                          "alg": format!("{:?}", alg), "r": rel_value(r)}));
            if j % 7 == 0 {
                pack_event(&mut out, &format!("{}/pk{}", case, j), "sieve", r);
            }
        }
        // final step on sets of (natively valid) published relations
        let Some(sn) = store_n else { continue };
        if !bad_raws.is_empty() || cycles.is_empty() {
            continue;
        }
        if let Some((j, _)) = cycles.iter().enumerate().find(|(_, r)| !native_valid(r, &sn)) {
            // already forwarded above if sampled; make sure it is judged
            out.ev(json!({"op": "rel", "case": format!("{}/invalid{}", case, j), "n": dn(&sn), "nd": sn.to_string(),
                          "alg": format!("{:?}", alg), "r": rel_value(&cycles[j])}));
            continue;
        }
        // a factor base that contains every small prime of the inputs
        let mut size = 16u32;
        let fb = loop {
            let fb = FBase::new(YInt::cast_from(sn), size);
            if fb.bound() as i64 >= maxsmall || size > 200000 {
                break fb;
            }
            size *= 2;
        };
        let nsets = if thorough { 6 } else { 3 };
        for k in 0..nsets {
            let set: Vec<Relation> = match k {
                0 => cycles.clone(),
                1 => {
                    let mut v = cycles.clone();
                    v.shuffle(&mut rng);
                    v.truncate(cycles.len() * 3 / 4);
                    v
                }
                2 => {
                    // duplicates and combined relations first
                    let mut v: Vec<Relation> = cycles.iter().filter(|r| r.cyclelen >= 2).cloned().collect();
                    v.extend(cycles.iter().take(cycles.len() / 2).cloned());
                    v.extend(cycles.iter().take(20).cloned());
                    v
                }
                3 => cycles.iter().take(cycles.len() / 2).cloned().collect(),
                4 => cycles.iter().rev().cloned().collect(),
                _ => {
                    let mut v = cycles.clone();
                    v.shuffle(&mut rng);
                    v.truncate(cycles.len() / 3);
                    v
                }
            };
            if set.is_empty() || !some_survivor(&set, &fb) {
                continue;
            }
            final_step_event(&mut out, &format!("{}/fs{}", case, k), "sieve", &n, &fb, &set);
        }
    }
    out.finish();
    0
}

/// Not part of the check: reproduces the excluded corner (no relation survives the singleton filter of
/// final_step, which then calls kernel_gauss on zero columns).  `ymqv c11 --mode edge --out FILE`
fn run_edge(args: &Args) -> i32 {
    let mut out = Out::create(arg_str(args, "out", "trace.ndjson"));
    let mut rng = rng_for(arg_u64(args, "seed", 1), "c11-edge");
    let ctx = new_ctx(&mut rng, 64, 2, 24);
    let r = realise(&mut rng, &ctx, &[ctx.plus[0]], 1);
    final_step_event(&mut out, "edge-nosurvivor", "edge", &ctx.n, &ctx.fb, &[r]);
    out.finish();
    0
}

pub fn run(args: &Args) -> i32 {
    match arg_str(args, "mode", "hist") {
        "edge" => run_edge(args),
        "hist" => run_hist(args),
        "pack" => run_pack(args),
        "sieve" => run_sieve(args),
        m => {
            eprintln!("c11: unknown mode {}", m);
            2
        }
    }
}
