//! C20 driver: dumps every derived parameter, as computed by the REAL parameter functions of
//! yamaquasi (through the `vhook`/`vhook_params` accessors for the crate-private ones), for the
//! whole configuration space of the property:
//!   bit lengths 1..512 x use_double x {siqs, mpqs, qs, cls} (two shapes of n per size),
//!   a log grid of B2 values for both stage-2 tables plus the rows themselves and the midpoints
//!   between consecutive rows +-1 ulp (rows are *discovered* through the real selection function),
//!   every (modulus bit length 1..512) x (power-of-two size 16..2^20) of the convolution dispatch.
//! The driver holds no copy of any table and judges nothing: spec/params/Params.tla does.
//! A panic inside a parameter function (e.g. an underflowing subtraction with overflow checks) is an
//! event (`outcome`), never a failure of the driver.

use bnum::cast::CastFrom;
use serde_json::{json, Map, Value};

use yamaquasi::arith_montgomery::{MInt, ZmodN};
use yamaquasi::fbase::{self, FBase};
use yamaquasi::{arith_fft, classgroup, mpqs, params, pollard_pm1, qsieve, siqs, Int, Uint};

use crate::trace::*;

const MAX_BITS: u32 = 512;
/// Largest number of primes we are willing to enumerate to bound the largest factor-base prime.
const MAX_ENUM: usize = 1_300_000;

fn shape_n(bits: u32, shape: &str) -> Uint {
    match shape {
        // smallest odd number of that size (1 mod 8 from 4 bits on)
        "lo1" => (Uint::ONE << (bits - 1)) | Uint::ONE,
        // largest number of that size (7 mod 8 from 3 bits on)
        "hi" => (Uint::ONE << bits) - Uint::ONE,
        _ => unreachable!(),
    }
}

/// calls `f`; on panic records which function failed into `obj` and returns None
fn call<T>(obj: &mut Map<String, Value>, name: &str, f: impl FnOnce() -> T) -> Option<T> {
    match guard(f) {
        Ok(v) => Some(v),
        Err(e) => {
            if !obj.contains_key("outcome") {
                if let Some(m) = e.as_object() {
                    for (k, v) in m {
                        obj.insert(k.clone(), v.clone());
                    }
                }
                obj.insert("fn".into(), json!(name));
            }
            None
        }
    }
}

struct PrimeTable {
    ps: Vec<u32>,
}

impl PrimeTable {
    /// the k-th prime (1-based) as enumerated by the library's own `fbase::primes`
    fn kth(&self, k: u64) -> Option<u32> {
        if k >= 1 && (k as usize) <= self.ps.len() {
            Some(self.ps[k as usize - 1])
        } else {
            None
        }
    }
}

/// Adds fb and the raw facts from which the spec bounds the largest factor-base prime: the fb8-th
/// prime (fb8 = 8*ceil(fb/8) primes are kept) and the (2 fb+40)-th prime (that many are enumerated),
/// as enumerated by the library's own `fbase::primes`; 0 = beyond the enumerated table.
fn put_fb(obj: &mut Map<String, Value>, pt: &PrimeTable, fb: u32) {
    obj.insert("fb".into(), du(fb as u64));
    let fb8 = 8 * ((fb as u64 + 7) / 8);
    obj.insert("pk1".into(), du(pt.kth(fb8).map(|p| p as u64).unwrap_or(0)));
    obj.insert("pk2".into(), du(pt.kth(2 * fb as u64 + 40).map(|p| p as u64).unwrap_or(0)));
    obj.insert("pi24".into(), du(pt.ps.iter().take_while(|&&p| p < 1 << 24).count() as u64));
}

/// every derived parameter of one sieve variant for one n, as computed by the real functions (shared by the
/// exhaustive dump and by the consumer runs of the second leg, so that both log the same fields)
fn fill_params(o: &mut Map<String, Value>, alg: &str, n: &Uint, bits: u32, dbl: bool, pt: &PrimeTable) {
    let n = *n;
    let mut o = o;
    match alg {
        "siqs" => {
            if let Some(fb) = call(&mut o, "siqs::fb_size", || siqs::vhook::fb_size(&n, dbl)) {
                put_fb(&mut o, pt, fb);
            }
            // also the public formula it is built on
            if let Some(v) = call(&mut o, "params::factor_base_size", || params::factor_base_size(&n)) {
                o.insert("fbs".into(), du(v as u64));
            }
            if let Some(v) = call(&mut o, "siqs::nfactors", || siqs::vhook::nfactors(&n)) {
                o.insert("nfacs".into(), du(v as u64));
            }
            if let Some(v) = call(&mut o, "siqs::a_value_count", || siqs::vhook::a_value_count(&n)) {
                o.insert("acount".into(), du(v as u64));
            }
            if let Some(v) = call(&mut o, "siqs::a_tolerance_divisor", || siqs::vhook::a_tolerance_divisor(&n)) {
                o.insert("adiv".into(), du(v as u64));
            }
            if let Some(v) = call(&mut o, "siqs::interval_size", || siqs::vhook::interval_size(&n, dbl)) {
                o.insert("interval".into(), du(v as u64));
            }
            if let Some(v) = call(&mut o, "siqs::large_prime_factor", || siqs::vhook::large_prime_factor(&n)) {
                o.insert("lpf".into(), du(v));
            }
            if let Some(v) = call(&mut o, "siqs::double_large_factor", || siqs::vhook::double_large_factor(&n)) {
                o.insert("dlf".into(), du(v));
            }
        }
        "mpqs" => {
            if let Some(fb) = call(&mut o, "params::mpqs_fb_size", || params::mpqs_fb_size(bits, dbl)) {
                put_fb(&mut o, pt, fb);
            }
            if let Some(v) = call(&mut o, "mpqs::mpqs_interval_size", || mpqs::vhook::mpqs_interval_size(&n)) {
                // i64 in the code, used as u32
                o.insert("interval_neg".into(), json!(v < 0));
                o.insert("interval".into(), du(v.unsigned_abs()));
            }
            if let Some(v) = call(&mut o, "mpqs::large_prime_factor", || mpqs::vhook::large_prime_factor(&n)) {
                o.insert("lpf".into(), du(v));
            }
            if let Some(v) = call(&mut o, "mpqs::double_large_factor", || mpqs::vhook::double_large_factor(&n)) {
                o.insert("dlf".into(), du(v));
            }
        }
        "qs" => {
            if let Some(fb) = call(&mut o, "params::qs_fb_size", || params::qs_fb_size(bits, dbl)) {
                put_fb(&mut o, pt, fb);
            }
            if let Some(v) = call(&mut o, "qsieve::large_prime_factor", || qsieve::large_prime_factor(&n)) {
                o.insert("lpf".into(), du(v));
            }
            // nblocks is a method of the sieve context: build one over a tiny factor base
            if let Some(v) = call(&mut o, "qsieve::SieveQS::nblocks", || {
                let fb = FBase::new(Int::cast_from(n), 8);
                let qs = qsieve::SieveQS::new(n, &fb, 0, dbl);
                qsieve::vhook::nblocks(&qs)
            }) {
                o.insert("nblocks".into(), du(v as u64));
            }
        }
        "cls" => {
            // the class group code derives everything from the (adjusted) bit size
            if let Some(fb) = call(&mut o, "params::clsgrp_fb_size", || params::clsgrp_fb_size(bits, dbl)) {
                put_fb(&mut o, pt, fb);
            }
            if let Some((ac, nf)) = call(&mut o, "classgroup::a_params", || classgroup::vhook_params::a_params(bits)) {
                o.insert("acount".into(), du(ac as u64));
                o.insert("nfacs".into(), du(nf as u64));
            }
            if let Some(v) = call(&mut o, "classgroup::interval_size", || classgroup::vhook_params::interval_size(bits)) {
                o.insert("interval".into(), du(v as u64));
            }
            if let Some(v) = call(&mut o, "classgroup::large_prime_factor", || classgroup::vhook_params::large_prime_factor(bits)) {
                o.insert("lpf".into(), du(v));
            }
            let d = -Int::cast_from(n);
            if let Some(v) = call(&mut o, "classgroup::double_large_factor", || classgroup::vhook_params::double_large_factor(&d)) {
                o.insert("dlf".into(), du(v));
            }
        }
        _ => unreachable!(),
    }
}

fn sieve_params(out: &mut Out, profile: &str, pt: &PrimeTable) {
    for bits in 1..=MAX_BITS {
        for shape in ["lo1", "hi"] {
            if bits == 1 && shape == "hi" {
                continue;
            }
            let n = shape_n(bits, shape);
            assert_eq!(n.bits(), bits);
            for dbl in [false, true] {
                for alg in ["siqs", "mpqs", "qs", "cls"] {
                    let mut o = Map::new();
                    o.insert("op".into(), json!("params"));
                    o.insert("case".into(), json!(format!("{}/{}/{}/{}/{}", alg, bits, shape, dbl as u8, profile)));
                    o.insert("alg".into(), json!(alg));
                    o.insert("bits".into(), json!(bits));
                    o.insert("shape".into(), json!(shape));
                    o.insert("dbl".into(), json!(dbl));
                    o.insert("profile".into(), json!(profile));
                    o.insert("n".into(), dn(&n));
                    fill_params(&mut o, alg, &n, bits, dbl, pt);
                    out.ev(Value::Object(o));
                }
            }
        }
    }
}

fn ulp_next(x: f64) -> f64 {
    f64::from_bits(x.to_bits() + 1)
}
fn ulp_prev(x: f64) -> f64 {
    f64::from_bits(x.to_bits() - 1)
}

fn stage2(out: &mut Out, profile: &str) {
    // requested B2 values: log grid (about 2000 points over 10 .. 3e14), then the discovered rows
    // and the midpoints between consecutive rows, each +-1 ulp
    let mut grid: Vec<f64> = vec![];
    let steps = 2000;
    let (lo, hi) = (10f64.ln(), 3e14f64.ln());
    for i in 0..=steps {
        grid.push((lo + (hi - lo) * i as f64 / steps as f64).exp().round());
    }
    grid.extend_from_slice(&[0.0, 1.0, 4.0, 1e15, 1e18, 1e300]);
    let thr = pollard_pm1::vhook_params::multieval_threshold();
    grid.extend_from_slice(&[ulp_prev(thr), thr, ulp_next(thr)]);
    for table in ["ecm", "pm1"] {
        let sel = |b2: f64| -> Result<(f64, u64, u64), Value> {
            guard(|| {
                if table == "ecm" {
                    params::stage2_params(b2)
                } else {
                    pollard_pm1::vhook_params::stage2_params(b2)
                }
            })
        };
        // discover rows
        let mut rows: Vec<f64> = vec![];
        for &b in &grid {
            if let Ok((r, _, _)) = sel(b) {
                if r.is_finite() && r > 0.0 && !rows.contains(&r) {
                    rows.push(r);
                }
            }
        }
        rows.sort_by(|a, b| a.total_cmp(b));
        let mut pts = grid.clone();
        for (i, &r) in rows.iter().enumerate() {
            pts.extend_from_slice(&[ulp_prev(r), r, ulp_next(r)]);
            if i + 1 < rows.len() {
                let m = (r + rows[i + 1]) / 2.0;
                pts.extend_from_slice(&[ulp_prev(m), m, ulp_next(m)]);
            }
        }
        pts.sort_by(|a, b| a.total_cmp(b));
        pts.dedup();
        for (i, &b2) in pts.iter().enumerate() {
            let mut o = Map::new();
            o.insert("op".into(), json!("stage2"));
            o.insert("case".into(), json!(format!("s2/{}/{}/{}", table, i, profile)));
            o.insert("table".into(), json!(table));
            o.insert("profile".into(), json!(profile));
            o.insert("b2".into(), json!(format!("{:e}", b2)));
            // whether the consumer reads (d1, d2) for this request: ECM/P+1 always, P-1 only on the
            // polynomial-evaluation path
            o.insert("used".into(), json!(table == "ecm" || b2 > thr));
            match sel(b2) {
                Ok((r, d1, d2)) => {
                    o.insert("row".into(), json!(format!("{:e}", r)));
                    o.insert("d1".into(), du(d1));
                    o.insert("d2".into(), du(d2));
                }
                Err(e) => {
                    for (k, v) in e.as_object().unwrap() {
                        o.insert(k.clone(), v.clone());
                    }
                }
            }
            out.ev(Value::Object(o));
        }
    }
}

fn conv_dispatch(out: &mut Out, profile: &str) {
    // The dispatch of convolve_modn is a `match` inside the function: it is observed through the
    // event emitted right after the match.  The call is made with empty operands, so that it stops
    // (index panic, caught) before any transform is computed.
    for bits in 1..=MAX_BITS {
        let n = shape_n(bits, "lo1");
        let zn = match guard(|| ZmodN::new(n)) {
            Ok(z) => z,
            Err(_) => continue,
        };
        // sizes below 16 never reach a transform in the library (FFT thresholds are 28 and more)
        for lg in 4..=20u32 {
            let size = 1usize << lg;
            yamaquasi::verif::start();
            let r = guard(|| {
                let mut res: [MInt; 0] = [];
                arith_fft::convolve_modn(&zn, size, &[], &[], &mut res, 0)
            });
            let evs = yamaquasi::verif::stop();
            let mut o = Map::new();
            o.insert("op".into(), json!("conv"));
            o.insert("case".into(), json!(format!("conv/{}/{}/{}", bits, lg, profile)));
            o.insert("profile".into(), json!(profile));
            o.insert("bits".into(), json!(bits));
            o.insert("lgsize".into(), json!(lg));
            let mut found = false;
            for s in evs {
                let v: Value = serde_json::from_str(&s).expect("hook event");
                if v["op"] == "conv_dispatch" {
                    found = true;
                    o.insert("fsize".into(), json!(v["fsize"].as_u64().unwrap().min(1 << 30)));
                    o.insert("logpack".into(), json!(v["logpack"].as_u64().unwrap().min(1 << 30)));
                    o.insert("stride".into(), json!(v["stride"].as_u64().unwrap().min(1 << 30)));
                }
            }
            o.insert("row".into(), json!(found));
            if !found {
                o.insert("fsize".into(), json!(0));
                o.insert("logpack".into(), json!(0));
                o.insert("stride".into(), json!(0));
            }
            // how the (deliberately truncated) call ended, for the record
            o.insert("ended".into(), json!(match r {
                Ok(_) => "returned".to_string(),
                Err(e) => e["msg"].as_str().unwrap_or("?").chars().take(60).collect(),
            }));
            out.ev(Value::Object(o));
        }
    }
}

pub fn run(args: &Args) -> i32 {
    if arg_str(args, "mode", "dump") == "flow" {
        return flow_run(args);
    }
    let profile = arg_str(args, "profile", "release").to_string();
    let mut out = Out::create(arg_str(args, "out", "trace.ndjson"));
    // the library's own prime enumeration, once
    let pt = PrimeTable { ps: fbase::primes(MAX_ENUM as u32) };
    sieve_params(&mut out, &profile, &pt);
    stage2(&mut out, &profile);
    conv_dispatch(&mut out, &profile);
    let n = out.finish();
    println!("{}", json!({"events": n}));
    0
}

// ==========================================================================================
// Second leg: the parameters flow into their REAL consumers.
//
// Input: the SHAPE lines printed by spec/params/ParamFlow.tla (one per consumer x breakpoint x side, derived
// by TLC from the dump above).  For every shape the real consumer is constructed and runs its first unit of
// work (or a whole / abort-bounded run where that is feasible) on a constructed n of exactly that size.
// One event per run: the parameters as the real functions report them for that n, what the hooks inside the
// consumer reported, and how the run ended.  Nothing is judged here (spec/params/ParamFlowTrace.tla does).
// ==========================================================================================
use rand::rngs::StdRng;
use rand::Rng;
use yamaquasi::{ecm, ecm128, pp1, Preferences, Verbosity};

use crate::gen::{is_prime_u64, rand_bits, rng_for};

fn rand_prime_u64(rng: &mut StdRng, bits: u32) -> u64 {
    loop {
        let c = rand_bits(rng, bits).digits()[0] | 1;
        if is_prime_u64(c) {
            return c;
        }
    }
}

/// n of exactly `bits` bits (>= 16), n = mod8 (mod 8), product of distinct primes of at most 60 bits, one of
/// them of 24..40 bits from 64 bits on (no factor can be in a factor base from 48 bits per piece on)
fn make_n(rng: &mut StdRng, bits: u32, mod8: u64) -> (Uint, Vec<u64>) {
    assert!(bits >= 16);
    let mut sizes: Vec<u32> = vec![];
    if bits < 72 {
        sizes.push(bits / 2);
        sizes.push(bits - bits / 2);
    } else {
        sizes.push(32);
        let rest = bits - 32;
        let k = (rest + 59) / 60;
        for i in 0..k {
            sizes.push(rest / k + if i < rest % k { 1 } else { 0 });
        }
    }
    let np = sizes.len() as u32;
    // a product of np numbers of s_i bits has sum(s_i) - np + 1 + floor(sum of fractional logs) bits
    let extra = np - 1 - (0.557 * np as f64).floor() as u32;
    for i in 0..extra as usize {
        let j = 1 + i % (sizes.len() - 1);
        sizes[j] += 1;
    }
    loop {
        let ps: Vec<u64> = sizes.iter().map(|&s| rand_prime_u64(rng, s)).collect();
        let mut d = ps.clone();
        d.sort();
        d.dedup();
        if d.len() != ps.len() {
            continue;
        }
        let n = ps.iter().fold(Uint::ONE, |a, &p| a * Uint::from(p));
        if n.bits() == bits && n.digits()[0] % 8 == mod8 {
            return (n, ps);
        }
    }
}

fn abort_prefs(k: u64, dbl: bool) -> Preferences {
    let mut p = Preferences::default();
    p.verbosity = Verbosity::Silent;
    p.use_double = Some(dbl);
    if k > 0 {
        let polls = std::sync::atomic::AtomicU64::new(0);
        p.should_abort = Some(Box::new(move || polls.fetch_add(1, std::sync::atomic::Ordering::SeqCst) + 1 >= k));
    }
    p
}

fn merge_err(o: &mut Map<String, Value>, e: &Value) {
    if let Some(m) = e.as_object() {
        for (k, v) in m {
            o.insert(k.clone(), v.clone());
        }
    }
}

/// what the hooks inside the consumer reported during one run
fn hook_summary(o: &mut Map<String, Value>, evs: &[String]) {
    let (mut stage, mut run_fb, mut tasks, mut polys, mut units, mut aborted) = (false, 0u64, 0u64, 0u64, 0u64, false);
    for s in evs {
        let v: Value = match serde_json::from_str(s) {
            Ok(v) => v,
            Err(_) => continue,
        };
        match v["op"].as_str().unwrap_or("") {
            "stage" => {
                stage = true;
                run_fb = v["fb"].as_u64().unwrap_or(0);
                tasks = v["tasks"].as_u64().unwrap_or(0);
            }
            "poly" => polys += 1,
            "unit_end" => units += 1,
            "sieve_ret" => aborted = aborted || v["why"] == "abort",
            _ => {}
        }
    }
    o.insert("stage_seen".into(), json!(stage));
    o.insert("run_fb".into(), json!(run_fb.min(1 << 30)));
    o.insert("tasks".into(), json!(tasks.min(1 << 30)));
    o.insert("polys".into(), json!(polys.min(1 << 30)));
    o.insert("units_done".into(), json!(units.min(1 << 30)));
    o.insert("aborted".into(), json!(aborted));
}

/// the whole consumer (siqs / mpqs / qsieve) on n with multiplier 1, bounded by an abort predicate
fn real_sieve_run(o: &mut Map<String, Value>, alg: &'static str, n: Uint, dbl: bool, abort: u64) {
    o.insert("abort".into(), json!(abort));
    yamaquasi::verif::start();
    let r = guard_deadline(900.0, move || {
        let prefs = abort_prefs(abort, dbl);
        match alg {
            "siqs" => match siqs::siqs(&n, 1, &prefs, None) {
                Ok(v) => (v.len(), "returned"),
                Err(_) => (0, "unexpected_factor"),
            },
            "mpqs" => (mpqs::mpqs(n, 1, &prefs, None).len(), "returned"),
            "qs" => (qsieve::qsieve(n, 1, &prefs, None).len(), "returned"),
            _ => unreachable!(),
        }
    });
    let evs = yamaquasi::verif::stop();
    hook_summary(o, &evs);
    match r {
        Ok((found, how)) => {
            o.insert("ended".into(), json!(how));
            o.insert("found".into(), json!(found.min(1 << 20)));
        }
        Err(e) => merge_err(o, &e),
    }
}

/// SIQS / class group: constructor chain and first polynomial, composed from the public pieces the consumer
/// itself is made of, with the parameters of the real parameter functions.  `neg` = the class group variant
/// (negative discriminant d = -n, parameters from the adjusted size `psz`).
fn first_unit(o: &mut Map<String, Value>, n: Uint, dbl: bool, cls: Option<u32>) {
    let step = std::sync::Arc::new(std::sync::Mutex::new("start"));
    let st2 = step.clone();
    let r = guard_deadline(900.0, move || {
        let set = |s: &'static str| *st2.lock().unwrap() = s;
        let prefs = abort_prefs(0, dbl);
        let nint: Int = if cls.is_some() { -Int::cast_from(n) } else { Int::cast_from(n) };
        set("params");
        let (fb, mm, nfacs, acount, lpf, dlf) = match cls {
            None => (
                siqs::vhook::fb_size(&n, dbl),
                siqs::vhook::interval_size(&n, dbl),
                siqs::vhook::nfactors(&n) as usize,
                siqs::vhook::a_value_count(&n),
                siqs::vhook::large_prime_factor(&n),
                siqs::vhook::double_large_factor(&n),
            ),
            Some(sz) => {
                let (ac, nf) = classgroup::vhook_params::a_params(sz);
                (
                    params::clsgrp_fb_size(sz, dbl),
                    classgroup::vhook_params::interval_size(sz),
                    nf as usize,
                    ac as usize,
                    classgroup::vhook_params::large_prime_factor(sz),
                    classgroup::vhook_params::double_large_factor(&nint),
                )
            }
        };
        set("fbase");
        let fbase = FBase::new(nint, fb);
        let fb_len = fbase.len();
        set("select_siqs_factors");
        let factors = siqs::select_siqs_factors(&fbase, &nint, nfacs, mm as usize, Verbosity::Silent);
        set("select_a");
        let a_ints = siqs::select_a(&factors, acount, Verbosity::Silent);
        let got = a_ints.len();
        if cls.is_none() {
            // what siqs() evaluates next
            set("polys_per_a");
            let _polys_per_a: usize = 1 << (nfacs - 1);
        }
        set("bounds");
        let maxprime = fbase.bound() as u64;
        let maxlarge: u64 = std::cmp::min(maxprime * lpf, (1 << 32) - 1);
        let maxdouble = if dbl { maxprime * maxprime * dlf } else { 0 };
        set("sieve_new");
        let s = siqs::SieveSIQS::new(nint, &fbase, maxlarge, maxdouble, mm as usize, &prefs);
        if got == 0 {
            return (fb_len, got, 0u32, 0usize, "no_a");
        }
        set("prepare_a");
        let a_int = a_ints[0];
        let start_offset = if a_int.is_one() { 0 } else { -(mm as i64) / 2 };
        let a = siqs::prepare_a(&factors, &a_int, &fbase, start_offset);
        set("poly_first");
        let pol = siqs::Poly::first(&s, &a);
        set("sieve_poly");
        let nrels = if cls.is_some() {
            classgroup::vhook_flow::sieve_poly(&nint, s, &prefs, &a, &pol)
        } else {
            siqs::vhook_flow::sieve_poly(&s, &a, &pol)
        };
        (fb_len, got, a_int.bits(), nrels, "first_unit_done")
    });
    o.insert("at".into(), json!(*step.lock().unwrap()));
    match r {
        Ok((fb_len, got, abits, nrels, how)) => {
            o.insert("ended".into(), json!(how));
            o.insert("run_fb".into(), json!(fb_len.min(1 << 30)));
            o.insert("tasks".into(), json!(got.min(1 << 30)));
            o.insert("a_bits".into(), json!(abits));
            o.insert("found".into(), json!(nrels.min(1 << 20)));
        }
        Err(e) => merge_err(o, &e),
    }
}

/// a discriminant -m whose adjusted size (the size class `classgroup` takes its parameters from) is `target`
fn make_disc(rng: &mut StdRng, target: u32) -> Option<(Uint, u32)> {
    for _ in 0..4000 {
        let bits = (target as i64 + rng.gen_range(-4i64..=6)).max(16) as u32;
        let m8 = if rng.gen::<bool>() { 3 } else { 7 };
        let (m, _) = make_n(rng, bits, m8);
        let d = -Int::cast_from(m);
        let bias = match guard(|| classgroup::vhook_flow::smoothness_bias(&d)) {
            Ok(b) => b,
            Err(_) => continue,
        };
        // the size class as classgroup() derives it
        let adj = std::cmp::max(1, m.bits() as i64 - (2.5 * bias).round() as i64) as u32;
        if adj == target {
            return Some((m, adj));
        }
    }
    None
}

fn real_cls_run(o: &mut Map<String, Value>, m: Uint, dbl: bool) {
    o.insert("abort".into(), json!(1));
    let r = guard_deadline(900.0, move || {
        let prefs = abort_prefs(1, dbl);
        let d = -Int::cast_from(m);
        classgroup::classgroup(&d, &prefs, None).is_some()
    });
    match r {
        Ok(some) => {
            o.insert("ended".into(), json!(if some { "returned" } else { "aborted" }));
        }
        Err(e) => merge_err(o, &e),
    }
}

fn flow_sieve(out: &mut Out, sh: &Value, seed: u64, profile: &str, pt: &PrimeTable, real_max: u32, idx: usize) {
    let fam = sh["fam"].as_str().unwrap().to_string();
    let bits = sh["bits"].as_u64().unwrap() as u32;
    let dbl = sh["dbl"].as_bool().unwrap();
    let side = sh["side"].as_str().unwrap_or("?").to_string();
    let why = sh["why"].as_str().unwrap_or("?").to_string();
    let nshape = sh["shape"].as_str().unwrap_or("hi").to_string();
    let mut rng = rng_for(seed, &format!("c20-flow/{}/{}/{}/{}", fam, bits, dbl, nshape));
    let alg: &'static str = match fam.as_str() {
        "siqs" => "siqs",
        "mpqs" => "mpqs",
        "qs" => "qs",
        "cls" => "cls",
        _ => return,
    };
    // the number: exactly `bits` bits; 1 mod 8 (type 2 polynomials, factor base of bits-2) or 7 mod 8
    let (n, psz) = if alg == "cls" {
        match make_disc(&mut rng, bits) {
            Some((m, adj)) => (m, adj),
            None => return,
        }
    } else {
        (make_n(&mut rng, bits, if nshape == "lo1" { 1 } else { 7 }).0, bits)
    };
    let kinds: Vec<&str> = match alg {
        "siqs" => vec!["first", "real"],
        "cls" => vec!["first", "real"],
        _ => vec!["real"],
    };
    for kind in kinds {
        // a whole A value = 2^(nfacs-1) polynomials: only where that finishes
        if kind == "real" && (alg == "siqs" || alg == "cls") && bits > real_max {
            continue;
        }
        let mut o = Map::new();
        o.insert("op".into(), json!("flow"));
        o.insert("case".into(), json!(format!("flow/{}/{}/{}/{}/{}/{}/{}", alg, bits, nshape, dbl as u8, kind, profile, idx)));
        o.insert("alg".into(), json!(alg));
        o.insert("fam".into(), json!(alg));
        o.insert("bits".into(), json!(psz));
        o.insert("nbits".into(), json!(n.bits()));
        o.insert("side".into(), json!(side));
        o.insert("why".into(), json!(why));
        o.insert("shape".into(), json!(nshape));
        o.insert("dbl".into(), json!(dbl));
        o.insert("kind".into(), json!(kind));
        o.insert("profile".into(), json!(profile));
        o.insert("n".into(), dn(&n));
        o.insert("nd".into(), json!(n.to_string()));
        fill_params(&mut o, alg, &n, psz, dbl, pt);
        if o.contains_key("outcome") {
            o.insert("kind".into(), json!("params"));
            out.ev(Value::Object(o));
            return;
        }
        match (alg, kind) {
            ("siqs", "first") => first_unit(&mut o, n, dbl, None),
            ("cls", "first") => first_unit(&mut o, n, dbl, Some(psz)),
            ("cls", "real") => real_cls_run(&mut o, n, dbl),
            (_, "real") => {
                let abort = if bits <= 100 { 0 } else { 1 };
                real_sieve_run(&mut o, alg, n, dbl, abort)
            }
            _ => unreachable!(),
        }
        for k in ["stage_seen", "aborted"] {
            if !o.contains_key(k) {
                o.insert(k.into(), json!(false));
            }
        }
        for k in ["run_fb", "tasks", "polys", "units_done", "found", "abort", "a_bits"] {
            if !o.contains_key(k) {
                o.insert(k.into(), json!(0));
            }
        }
        for k in ["at", "ended"] {
            if !o.contains_key(k) {
                o.insert(k.into(), json!(""));
            }
        }
        out.ev(Value::Object(o));
    }
}

fn flow_stage2(out: &mut Out, sh: &Value, seed: u64, profile: &str, maxd2: u64, idx: usize) {
    let table = sh["fam"].as_str().unwrap().to_string();
    let b2s = sh["b2"].as_str().unwrap().to_string();
    let b2: f64 = match b2s.parse() {
        Ok(x) => x,
        Err(_) => return,
    };
    let side = sh["side"].as_str().unwrap_or("?").to_string();
    let mut rng = rng_for(seed, &format!("c20-flow2/{}/{}", table, b2s));
    // the row the real selection function returns for this request (what the consumer will read)
    let sel = guard(|| if table == "ecm" { params::stage2_params(b2) } else { pollard_pm1::vhook_params::stage2_params(b2) });
    let (d1, d2) = match sel {
        Ok((_, d1, d2)) => (d1, d2),
        Err(_) => (0, 0),
    };
    let thr = pollard_pm1::vhook_params::multieval_threshold();
    let methods: Vec<&'static str> = if table == "ecm" { vec!["ecm", "pp1", "ecm128"] } else { vec!["pm1"] };
    for m in methods {
        // work bounds (schedule only): the quadratic 128-bit variant and the largest rows
        if d2 > maxd2 || (m == "ecm128" && d1.saturating_mul(d2) > 40_000_000) {
            continue;
        }
        if m == "pm1" && !(b2 > thr) {
            continue;
        }
        // a small modulus without small factors: two primes of 40 bits (stage 1 with B1 = 60 finds nothing in general)
        let (p, q) = (rand_prime_u64(&mut rng, 40), rand_prime_u64(&mut rng, 40));
        let n = Uint::from(p) * Uint::from(q);
        let mut o = Map::new();
        o.insert("op".into(), json!("flow2"));
        o.insert("case".into(), json!(format!("flow2/{}/{}/{}/{}/{}", table, m, b2s, profile, idx)));
        o.insert("fam".into(), json!(table));
        o.insert("table".into(), json!(table));
        o.insert("m".into(), json!(m));
        o.insert("b2".into(), json!(b2s));
        o.insert("side".into(), json!(side));
        o.insert("profile".into(), json!(profile));
        o.insert("nd".into(), json!(n.to_string()));
        o.insert("d1".into(), du(d1));
        o.insert("d2".into(), du(d2));
        let seedc: u32 = rng.gen_range(2..1000);
        yamaquasi::verif::start();
        let r: Result<bool, Value> = guard_deadline(1800.0, move || match m {
            "pm1" => pollard_pm1::pm1_impl(&n, 60, b2, Verbosity::Silent).is_some(),
            "pp1" => pp1::pp1(n, seedc as u64 + 3, 60, b2, Verbosity::Silent).is_some(),
            "ecm" | "ecm128" => {
                let zn = ZmodN::new(n);
                let s = match ecm::Suyama11::new(&zn) {
                    Ok(s) => s,
                    Err(_) => return false,
                };
                let g = match s.element(seedc).and_then(|p| s.params_point(&p)) {
                    Ok(g) => g,
                    Err(_) => return false,
                };
                let c = match ecm::Curve::twisted_from_point(zn.clone(), g) {
                    Ok(c) => c,
                    Err(_) => return false,
                };
                let sb = ecm::SmoothBase::new(60, m == "ecm");
                if m == "ecm" {
                    // the public entry point hands the table value of B2 to the single-curve routine
                    let b2t = params::stage2_params(b2).0;
                    ecm::vhook::ecm_curve(&sb, &zn, &c, b2t).is_some()
                } else {
                    let n128 = n.digits()[0] as u128 | (n.digits()[1] as u128) << 64;
                    let gm = ecm::vhook::coords(c.gen());
                    let lo = |m: &MInt| m.0[0] as u128 | (m.0[1] as u128) << 64;
                    let c128 = ecm128::vhook::from_point(n128, &(lo(&gm.0), lo(&gm.1), lo(&gm.2)));
                    ecm128::vhook::ecm_curve(&c128, &sb, b2).is_some()
                }
            }
            _ => unreachable!(),
        });
        let evs = yamaquasi::verif::stop();
        // what the consumer itself read and built
        let (mut hd1, mut hd2, mut nb, mut ng, mut plen, mut nvals, mut cd2, mut hdr, mut conv) = (0u64, 0u64, 0u64, 0u64, 0u64, 0u64, 0u64, false, false);
        for s in &evs {
            let v: Value = match serde_json::from_str(s) {
                Ok(v) => v,
                Err(_) => continue,
            };
            match v["op"].as_str().unwrap_or("") {
                "s2_hdr" if v.get("d1").is_some() => {
                    hdr = true;
                    hd1 = v["d1"].as_u64().unwrap_or(0);
                    hd2 = v["d2"].as_u64().unwrap_or(0);
                }
                "s2_b" => nb += 1,
                "s2_g" => ng = ng.max(v["k"].as_u64().unwrap_or(0)),
                "s2_conv" => {
                    conv = true;
                    plen = v["plen"].as_u64().unwrap_or(0);
                    nvals = v["nvals"].as_u64().unwrap_or(0);
                    cd2 = v["d2"].as_u64().unwrap_or(0);
                }
                _ => {}
            }
        }
        o.insert("hdr".into(), json!(hdr));
        o.insert("hd1".into(), du(hd1));
        o.insert("hd2".into(), du(hd2));
        o.insert("nb".into(), json!(nb.min(1 << 30)));
        o.insert("ng".into(), json!(ng.min(1 << 30)));
        o.insert("conv".into(), json!(conv));
        o.insert("plen".into(), json!(plen.min(1 << 30)));
        o.insert("nvals".into(), json!(nvals.min(1 << 30)));
        o.insert("cd2".into(), json!(cd2.min(1 << 30)));
        match r {
            Ok(found) => {
                o.insert("ended".into(), json!("returned"));
                o.insert("found".into(), json!(found));
            }
            Err(e) => merge_err(&mut o, &e),
        }
        out.ev(Value::Object(o));
    }
}

fn flow_run(args: &Args) -> i32 {
    let profile = arg_str(args, "profile", "release").to_string();
    let seed = arg_u64(args, "seed", 1);
    let shapes = read_ndjson(arg_str(args, "shapes", "shapes.ndjson"));
    let (part, parts) = (arg_u64(args, "part", 0) as usize, arg_u64(args, "parts", 1).max(1) as usize);
    let real_max = arg_u64(args, "real-max", 230) as u32;
    let maxd2 = arg_u64(args, "maxd2", 16384);
    let mut out = Out::create(arg_str(args, "out", "flow.ndjson"));
    let need_pt = shapes.iter().any(|s| s["fam"] != "ecm" && s["fam"] != "pm1");
    let pt = PrimeTable { ps: if need_pt { fbase::primes(MAX_ENUM as u32) } else { vec![] } };
    // the code under test may take the whole process down (abort, stack exhaustion): the index of the shape in progress is
    // kept in a side file, and the runner restarts after it (--from) and records the death as an event
    let from = arg_u64(args, "from", 0) as usize;
    let cur = format!("{}.cur", arg_str(args, "out", "flow.ndjson"));
    for (i, sh) in shapes.iter().enumerate() {
        if i % parts != part || i < from {
            continue;
        }
        let _ = std::fs::write(&cur, format!("{}", i));
        match sh["fam"].as_str().unwrap_or("") {
            "ecm" | "pm1" => flow_stage2(&mut out, sh, seed, &profile, maxd2, i),
            _ => flow_sieve(&mut out, sh, seed, &profile, &pt, real_max, i),
        }
        out.flush();
    }
    let _ = std::fs::write(&cur, "done");
    let n = out.finish();
    println!("{}", json!({"events": n}));
    0
}
