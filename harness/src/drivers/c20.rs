//! C20 driver: dumps every derived parameter, as computed by the REAL parameter functions of
//! yamaquasi (through the `vhook`/`vhook_params` accessors for the crate-private ones), for the
//! whole configuration space of the property:
//!   bit lengths 1..512 x use_double x {siqs, mpqs, qs, cls} (two shapes of n per size),
//!   a log grid of B2 values for both stage-2 tables plus the rows themselves and the midpoints
//!   between consecutive rows +-1 ulp (rows are *discovered* through the real selection function),
//!   every (modulus bit length 1..512) x (power-of-two size 16..2^20) of the convolution dispatch.
//! The driver holds no copy of any table and judges nothing: spec/params/Params.tla does.
//! A panic inside a parameter function (e.g. an underflowing subtraction with overflow checks) is an
//! event (`outcome`), never a failure of the driver.

use bnum::cast::CastFrom;
use serde_json::{json, Map, Value};

use yamaquasi::arith_montgomery::{MInt, ZmodN};
use yamaquasi::fbase::{self, FBase};
use yamaquasi::{arith_fft, classgroup, mpqs, params, pollard_pm1, qsieve, siqs, Int, Uint};

use crate::trace::*;

const MAX_BITS: u32 = 512;
/// Largest number of primes we are willing to enumerate to bound the largest factor-base prime.
const MAX_ENUM: usize = 1_300_000;

fn shape_n(bits: u32, shape: &str) -> Uint {
    match shape {
        // smallest odd number of that size (1 mod 8 from 4 bits on)
        "lo1" => (Uint::ONE << (bits - 1)) | Uint::ONE,
        // largest number of that size (7 mod 8 from 3 bits on)
        "hi" => (Uint::ONE << bits) - Uint::ONE,
        _ => unreachable!(),
    }
}

/// calls `f`; on panic records which function failed into `obj` and returns None
fn call<T>(obj: &mut Map<String, Value>, name: &str, f: impl FnOnce() -> T) -> Option<T> {
    match guard(f) {
        Ok(v) => Some(v),
        Err(e) => {
            if !obj.contains_key("outcome") {
                if let Some(m) = e.as_object() {
                    for (k, v) in m {
                        obj.insert(k.clone(), v.clone());
                    }
                }
                obj.insert("fn".into(), json!(name));
            }
            None
        }
    }
}

struct PrimeTable {
    ps: Vec<u32>,
}

impl PrimeTable {
    /// the k-th prime (1-based) as enumerated by the library's own `fbase::primes`
    fn kth(&self, k: u64) -> Option<u32> {
        if k >= 1 && (k as usize) <= self.ps.len() {
            Some(self.ps[k as usize - 1])
        } else {
            None
        }
    }
}

/// Adds fb and the raw facts from which the spec bounds the largest factor-base prime: the fb8-th
/// prime (fb8 = 8*ceil(fb/8) primes are kept) and the (2 fb+40)-th prime (that many are enumerated),
/// as enumerated by the library's own `fbase::primes`; 0 = beyond the enumerated table.
fn put_fb(obj: &mut Map<String, Value>, pt: &PrimeTable, fb: u32) {
    obj.insert("fb".into(), du(fb as u64));
    let fb8 = 8 * ((fb as u64 + 7) / 8);
    obj.insert("pk1".into(), du(pt.kth(fb8).map(|p| p as u64).unwrap_or(0)));
    obj.insert("pk2".into(), du(pt.kth(2 * fb as u64 + 40).map(|p| p as u64).unwrap_or(0)));
    obj.insert("pi24".into(), du(pt.ps.iter().take_while(|&&p| p < 1 << 24).count() as u64));
}

fn sieve_params(out: &mut Out, profile: &str, pt: &PrimeTable) {
    for bits in 1..=MAX_BITS {
        for shape in ["lo1", "hi"] {
            if bits == 1 && shape == "hi" {
                continue;
            }
            let n = shape_n(bits, shape);
            assert_eq!(n.bits(), bits);
            for dbl in [false, true] {
                for alg in ["siqs", "mpqs", "qs", "cls"] {
                    let mut o = Map::new();
                    o.insert("op".into(), json!("params"));
                    o.insert("case".into(), json!(format!("{}/{}/{}/{}/{}", alg, bits, shape, dbl as u8, profile)));
                    o.insert("alg".into(), json!(alg));
                    o.insert("bits".into(), json!(bits));
                    o.insert("shape".into(), json!(shape));
                    o.insert("dbl".into(), json!(dbl));
                    o.insert("profile".into(), json!(profile));
                    o.insert("n".into(), dn(&n));
                    match alg {
                        "siqs" => {
                            if let Some(fb) = call(&mut o, "siqs::fb_size", || siqs::vhook::fb_size(&n, dbl)) {
                                put_fb(&mut o, pt, fb);
                            }
                            // also the public formula it is built on
                            if let Some(v) = call(&mut o, "params::factor_base_size", || params::factor_base_size(&n)) {
                                o.insert("fbs".into(), du(v as u64));
                            }
                            if let Some(v) = call(&mut o, "siqs::nfactors", || siqs::vhook::nfactors(&n)) {
                                o.insert("nfacs".into(), du(v as u64));
                            }
                            if let Some(v) = call(&mut o, "siqs::a_value_count", || siqs::vhook::a_value_count(&n)) {
                                o.insert("acount".into(), du(v as u64));
                            }
                            if let Some(v) = call(&mut o, "siqs::a_tolerance_divisor", || siqs::vhook::a_tolerance_divisor(&n)) {
                                o.insert("adiv".into(), du(v as u64));
                            }
                            if let Some(v) = call(&mut o, "siqs::interval_size", || siqs::vhook::interval_size(&n, dbl)) {
                                o.insert("interval".into(), du(v as u64));
                            }
                            if let Some(v) = call(&mut o, "siqs::large_prime_factor", || siqs::vhook::large_prime_factor(&n)) {
                                o.insert("lpf".into(), du(v));
                            }
                            if let Some(v) = call(&mut o, "siqs::double_large_factor", || siqs::vhook::double_large_factor(&n)) {
                                o.insert("dlf".into(), du(v));
                            }
                        }
                        "mpqs" => {
                            if let Some(fb) = call(&mut o, "params::mpqs_fb_size", || params::mpqs_fb_size(bits, dbl)) {
                                put_fb(&mut o, pt, fb);
                            }
                            if let Some(v) = call(&mut o, "mpqs::mpqs_interval_size", || mpqs::vhook::mpqs_interval_size(&n)) {
                                // i64 in the code, used as u32
                                o.insert("interval_neg".into(), json!(v < 0));
                                o.insert("interval".into(), du(v.unsigned_abs()));
                            }
                            if let Some(v) = call(&mut o, "mpqs::large_prime_factor", || mpqs::vhook::large_prime_factor(&n)) {
                                o.insert("lpf".into(), du(v));
                            }
                            if let Some(v) = call(&mut o, "mpqs::double_large_factor", || mpqs::vhook::double_large_factor(&n)) {
                                o.insert("dlf".into(), du(v));
                            }
                        }
                        "qs" => {
                            if let Some(fb) = call(&mut o, "params::qs_fb_size", || params::qs_fb_size(bits, dbl)) {
                                put_fb(&mut o, pt, fb);
                            }
                            if let Some(v) = call(&mut o, "qsieve::large_prime_factor", || qsieve::large_prime_factor(&n)) {
                                o.insert("lpf".into(), du(v));
                            }
                            // nblocks is a method of the sieve context: build one over a tiny factor base
                            if let Some(v) = call(&mut o, "qsieve::SieveQS::nblocks", || {
                                let fb = FBase::new(Int::cast_from(n), 8);
                                let qs = qsieve::SieveQS::new(n, &fb, 0, dbl);
                                qsieve::vhook::nblocks(&qs)
                            }) {
                                o.insert("nblocks".into(), du(v as u64));
                            }
                        }
                        "cls" => {
                            // the class group code derives everything from the (adjusted) bit size
                            if let Some(fb) = call(&mut o, "params::clsgrp_fb_size", || params::clsgrp_fb_size(bits, dbl)) {
                                put_fb(&mut o, pt, fb);
                            }
                            if let Some((ac, nf)) = call(&mut o, "classgroup::a_params", || classgroup::vhook_params::a_params(bits)) {
                                o.insert("acount".into(), du(ac as u64));
                                o.insert("nfacs".into(), du(nf as u64));
                            }
                            if let Some(v) = call(&mut o, "classgroup::interval_size", || classgroup::vhook_params::interval_size(bits)) {
                                o.insert("interval".into(), du(v as u64));
                            }
                            if let Some(v) = call(&mut o, "classgroup::large_prime_factor", || classgroup::vhook_params::large_prime_factor(bits)) {
                                o.insert("lpf".into(), du(v));
                            }
                            let d = -Int::cast_from(n);
                            if let Some(v) = call(&mut o, "classgroup::double_large_factor", || classgroup::vhook_params::double_large_factor(&d)) {
                                o.insert("dlf".into(), du(v));
                            }
                        }
                        _ => unreachable!(),
                    }
                    out.ev(Value::Object(o));
                }
            }
        }
    }
}

fn ulp_next(x: f64) -> f64 {
    f64::from_bits(x.to_bits() + 1)
}
fn ulp_prev(x: f64) -> f64 {
    f64::from_bits(x.to_bits() - 1)
}

fn stage2(out: &mut Out, profile: &str) {
    // requested B2 values: log grid (about 2000 points over 10 .. 3e14), then the discovered rows
    // and the midpoints between consecutive rows, each +-1 ulp
    let mut grid: Vec<f64> = vec![];
    let steps = 2000;
    let (lo, hi) = (10f64.ln(), 3e14f64.ln());
    for i in 0..=steps {
        grid.push((lo + (hi - lo) * i as f64 / steps as f64).exp().round());
    }
    grid.extend_from_slice(&[0.0, 1.0, 4.0, 1e15, 1e18, 1e300]);
    let thr = pollard_pm1::vhook_params::multieval_threshold();
    grid.extend_from_slice(&[ulp_prev(thr), thr, ulp_next(thr)]);
    for table in ["ecm", "pm1"] {
        let sel = |b2: f64| -> Result<(f64, u64, u64), Value> {
            guard(|| {
                if table == "ecm" {
                    params::stage2_params(b2)
                } else {
                    pollard_pm1::vhook_params::stage2_params(b2)
                }
            })
        };
        // discover rows
        let mut rows: Vec<f64> = vec![];
        for &b in &grid {
            if let Ok((r, _, _)) = sel(b) {
                if r.is_finite() && r > 0.0 && !rows.contains(&r) {
                    rows.push(r);
                }
            }
        }
        rows.sort_by(|a, b| a.total_cmp(b));
        let mut pts = grid.clone();
        for (i, &r) in rows.iter().enumerate() {
            pts.extend_from_slice(&[ulp_prev(r), r, ulp_next(r)]);
            if i + 1 < rows.len() {
                let m = (r + rows[i + 1]) / 2.0;
                pts.extend_from_slice(&[ulp_prev(m), m, ulp_next(m)]);
            }
        }
        pts.sort_by(|a, b| a.total_cmp(b));
        pts.dedup();
        for (i, &b2) in pts.iter().enumerate() {
            let mut o = Map::new();
            o.insert("op".into(), json!("stage2"));
            o.insert("case".into(), json!(format!("s2/{}/{}/{}", table, i, profile)));
            o.insert("table".into(), json!(table));
            o.insert("profile".into(), json!(profile));
            o.insert("b2".into(), json!(format!("{:e}", b2)));
            // whether the consumer reads (d1, d2) for this request: ECM/P+1 always, P-1 only on the
            // polynomial-evaluation path
            o.insert("used".into(), json!(table == "ecm" || b2 > thr));
            match sel(b2) {
                Ok((r, d1, d2)) => {
                    o.insert("row".into(), json!(format!("{:e}", r)));
                    o.insert("d1".into(), du(d1));
                    o.insert("d2".into(), du(d2));
                }
                Err(e) => {
                    for (k, v) in e.as_object().unwrap() {
                        o.insert(k.clone(), v.clone());
                    }
                }
            }
            out.ev(Value::Object(o));
        }
    }
}

fn conv_dispatch(out: &mut Out, profile: &str) {
    // The dispatch of convolve_modn is a `match` inside the function: it is observed through the
    // event emitted right after the match.  The call is made with empty operands, so that it stops
    // (index panic, caught) before any transform is computed.
    for bits in 1..=MAX_BITS {
        let n = shape_n(bits, "lo1");
        let zn = match guard(|| ZmodN::new(n)) {
            Ok(z) => z,
            Err(_) => continue,
        };
        // sizes below 16 never reach a transform in the library (FFT thresholds are 28 and more)
        for lg in 4..=20u32 {
            let size = 1usize << lg;
            yamaquasi::verif::start();
            let r = guard(|| {
                let mut res: [MInt; 0] = [];
                arith_fft::convolve_modn(&zn, size, &[], &[], &mut res, 0)
            });
            let evs = yamaquasi::verif::stop();
            let mut o = Map::new();
            o.insert("op".into(), json!("conv"));
            o.insert("case".into(), json!(format!("conv/{}/{}/{}", bits, lg, profile)));
            o.insert("profile".into(), json!(profile));
            o.insert("bits".into(), json!(bits));
            o.insert("lgsize".into(), json!(lg));
            let mut found = false;
            for s in evs {
                let v: Value = serde_json::from_str(&s).expect("hook event");
                if v["op"] == "conv_dispatch" {
                    found = true;
                    o.insert("fsize".into(), json!(v["fsize"].as_u64().unwrap().min(1 << 30)));
                    o.insert("logpack".into(), json!(v["logpack"].as_u64().unwrap().min(1 << 30)));
                    o.insert("stride".into(), json!(v["stride"].as_u64().unwrap().min(1 << 30)));
                }
            }
            o.insert("row".into(), json!(found));
            if !found {
                o.insert("fsize".into(), json!(0));
                o.insert("logpack".into(), json!(0));
                o.insert("stride".into(), json!(0));
            }
            // how the (deliberately truncated) call ended, for the record
            o.insert("ended".into(), json!(match r {
                Ok(_) => "returned".to_string(),
                Err(e) => e["msg"].as_str().unwrap_or("?").chars().take(60).collect(),
            }));
            out.ev(Value::Object(o));
        }
    }
}

pub fn run(args: &Args) -> i32 {
    let profile = arg_str(args, "profile", "release").to_string();
    let mut out = Out::create(arg_str(args, "out", "trace.ndjson"));
    // the library's own prime enumeration, once
    let pt = PrimeTable { ps: fbase::primes(MAX_ENUM as u32) };
    sieve_params(&mut out, &profile, &pt);
    stage2(&mut out, &profile);
    conv_dispatch(&mut out, &profile);
    let n = out.finish();
    println!("{}", json!({"events": n}));
    0
}
