//! Shared machinery of the C01/C02/C03 drivers: calling `yamaquasi::factor` under a guard, turning the
//! hook events of `factor`/`factor_impl` into trace events, and process isolation.
//!
//! A driver builds a list of `Work` items (single calls or sweeps over small n) and hands it to
//! `run_works`.  The parent process splits the list over `--jobs` child processes (`ymqv <drv> --child 1
//! --cases F --start K --out G`); a child writes `{"begin":idx}`, the events of that item and `{"end":idx}`
//! and flushes.  A child that dies (stack exhaustion, abort) or had to abandon a hung call is restarted
//! behind the item it was processing; an item with a `begin` but no `end` becomes a `ret` event with
//! outcome "abort" (exit status / signal attached).  The code under test therefore can never make the
//! driver fail: every outcome is an event, judged by spec/factor/FactorTrace.tla.

use std::io::Write;
use std::process::{Command, Stdio};
use std::str::FromStr;

use rand::rngs::StdRng;
use rand::Rng;
use serde_json::{json, Map, Value};

use yamaquasi::{factor, Algo, Preferences, Verbosity};

use crate::gen::{is_prime_u64, probably_prime, rand_bits, Pool, Uint};
use crate::trace::*;

pub const ALGOS: [&str; 10] = ["auto", "rho", "squfof", "qs64", "pm1", "ecm", "ecm128", "qs", "mpqs", "siqs"];

#[derive(Clone, Debug, Default)]
pub struct Pref {
    pub threads: u64, // 0 = None
    pub fb: u64,      // 0 = None, else absolute factor base size
    pub lf: u64,      // 0 = None
    pub dbl: u64,     // 0 = None, 1 = Some(true), 2 = Some(false)
    pub isz: u64,     // 0 = None
    /// abort predicate: 0 = none, k >= 1 = returns true from its k-th call on (1 = pending from the start)
    pub abort: u64,
}

impl Pref {
    pub fn to_json(&self) -> Value {
        json!({"threads": self.threads, "fb": self.fb, "lf": self.lf, "dbl": self.dbl, "isz": self.isz, "abort": self.abort})
    }
    pub fn from_json(v: &Value) -> Pref {
        let g = |k: &str| v.get(k).and_then(|x| x.as_u64()).unwrap_or(0);
        Pref { threads: g("threads"), fb: g("fb"), lf: g("lf"), dbl: g("dbl"), isz: g("isz"), abort: g("abort") }
    }
    fn build(&self) -> Preferences {
        let mut p = Preferences::default();
        p.verbosity = Verbosity::Silent;
        p.threads = if self.threads == 0 { None } else { Some(self.threads as usize) };
        p.fb_size = if self.fb == 0 { None } else { Some(self.fb as u32) };
        p.large_factor = if self.lf == 0 { None } else { Some(self.lf) };
        p.use_double = match self.dbl {
            1 => Some(true),
            2 => Some(false),
            _ => None,
        };
        p.interval_size = if self.isz == 0 { None } else { Some(self.isz as u32) };
        if self.abort > 0 {
            let k = self.abort;
            let polls = std::sync::atomic::AtomicU64::new(0);
            p.should_abort = Some(Box::new(move || polls.fetch_add(1, std::sync::atomic::Ordering::SeqCst) + 1 >= k));
        }
        p
    }
}

#[derive(Clone, Debug)]
pub struct Case {
    pub id: String,
    pub n: Uint,
    pub alg: String,
    pub pref: Pref,
    pub deadline: f64,
    pub hooks: bool,
    /// prime factorisation known by construction (with multiplicity), if any
    pub primes: Option<Vec<Uint>>,
    pub shape: Value,
}

#[derive(Clone, Debug)]
pub enum Work {
    One(Case),
    /// every n in lo..hi (exclusive) listed in `ns` (or the whole range if `ns` is empty)
    Sweep { id: String, alg: String, lo: u64, hi: u64, ns: Vec<u64>, deadline: f64 },
}

impl Work {
    fn weight(&self) -> u64 {
        match self {
            Work::One(c) => 20 + (c.n.bits() as u64) * (c.n.bits() as u64) / 40,
            Work::Sweep { lo, hi, ns, .. } => {
                if ns.is_empty() {
                    (hi - lo) / 8 + 1
                } else {
                    ns.len() as u64 + 1
                }
            }
        }
    }
    fn to_json(&self) -> Value {
        match self {
            Work::One(c) => json!({"id": c.id, "n": c.n.to_string(), "alg": c.alg, "pref": c.pref.to_json(),
                                   "deadline": c.deadline, "hooks": c.hooks}),
            Work::Sweep { id, alg, lo, hi, ns, deadline } => {
                json!({"id": id, "sweep": [lo, hi], "ns": ns, "alg": alg, "deadline": deadline})
            }
        }
    }
}

pub fn algo_of(s: &str) -> Algo {
    Algo::from_str(s).expect("algo name")
}

// ------------------------------------------------------------------------------------------------
// child side
// ------------------------------------------------------------------------------------------------

fn split_loc(mut v: Value) -> Value {
    // "src/x.rs:123" -> file, line (TLC cannot take substrings)
    if let Some(loc) = v.get("loc").and_then(|l| l.as_str()).map(|s| s.to_string()) {
        let (f, l) = match loc.rfind(':') {
            Some(i) => (loc[..i].to_string(), loc[i + 1..].parse::<u64>().unwrap_or(0)),
            None => (loc.clone(), 0),
        };
        v["file"] = json!(f);
        v["line"] = json!(l);
    }
    v
}

fn dec_to_digits(s: &str) -> Value {
    dn(&Uint::from_str(s).expect("decimal number in hook event"))
}

/// hook event (JSON text from yamaquasi::verif) -> trace event; None for events of other components
fn convert_hook(raw: &str, case: &str) -> Option<Value> {
    let v: Value = serde_json::from_str(raw).ok()?;
    let op = v.get("op")?.as_str()?.to_string();
    if !(op.starts_with("fi_") || op == "f_small") {
        return None;
    }
    let mut m = Map::new();
    m.insert("op".into(), json!(op));
    m.insert("case".into(), json!(case));
    for (k, x) in v.as_object()? {
        match k.as_str() {
            "op" | "tid" | "seq" => {}
            "n" => {
                let s = x.as_str()?;
                m.insert("n".into(), dec_to_digits(s));
                m.insert("nd".into(), json!(s));
            }
            "p" if op == "fi_pp" => {
                m.insert("p".into(), dec_to_digits(x.as_str()?));
            }
            "parts" | "divs" => {
                let a: Vec<Value> = x.as_array()?.iter().map(|s| dec_to_digits(s.as_str().unwrap())).collect();
                m.insert(k.clone(), Value::from(a));
                m.insert(format!("{}d", k), x.clone());
            }
            _ => {
                m.insert(k.clone(), x.clone());
            }
        }
    }
    Some(Value::Object(m))
}

fn ret_event(case: &str, alg: &str, bits: u32, r: Result<Result<Vec<Uint>, ()>, Value>) -> Value {
    let mut e = json!({"op": "ret", "case": case, "alg": alg, "bits": bits, "fs": [], "fsd": []});
    match r {
        Ok(Ok(fs)) => {
            e["kind"] = json!("list");
            e["fs"] = Value::from(fs.iter().map(|f| dn(f)).collect::<Vec<_>>());
            e["fsd"] = Value::from(fs.iter().map(|f| f.to_string()).collect::<Vec<_>>());
        }
        Ok(Err(())) => {
            e["kind"] = json!("failure");
        }
        Err(v) => {
            let v = split_loc(fix_panic_loc(v));
            e["kind"] = v["outcome"].clone();
            for (k, x) in v.as_object().unwrap() {
                e[k] = x.clone();
            }
        }
    }
    e
}

fn call_one(w: &Value, sink: &mut dyn FnMut(Value)) -> bool {
    let id = w["id"].as_str().unwrap().to_string();
    let n = Uint::from_str(w["n"].as_str().unwrap()).unwrap();
    let alg = w["alg"].as_str().unwrap().to_string();
    let pref = Pref::from_json(&w["pref"]);
    let deadline = w["deadline"].as_f64().unwrap_or(120.0);
    let hooks = w["hooks"].as_bool().unwrap_or(false);
    let a = algo_of(&alg);
    if hooks {
        yamaquasi::verif::start();
    }
    let t0 = std::time::Instant::now();
    if let Ok(mut g) = ANY_PANIC.lock() {
        *g = None;
    }
    let r = guard_deadline(deadline, move || {
        let prefs = pref.build();
        factor(n, a, &prefs).map_err(|_| ())
    });
    let ms = t0.elapsed().as_millis() as u64;
    let timed_out = matches!(&r, Err(v) if v["outcome"] == "timeout");
    if hooks {
        for raw in yamaquasi::verif::stop() {
            if let Some(e) = convert_hook(&raw, &id) {
                sink(e);
            }
        }
    }
    let mut e = ret_event(&id, &alg, n.bits(), r);
    e["ms"] = json!(ms); // informational only (never judged)
    sink(e);
    timed_out
}

fn small_event(id: &str, alg: &str, n: u64, r: Result<Result<Vec<Uint>, ()>, Value>) -> Value {
    let mut e = json!({"op": "small", "case": format!("{}/{}", id, n), "alg": alg, "n": n, "fs": []});
    match r {
        Ok(Ok(fs)) => {
            e["kind"] = json!("list");
            // n < 2^31, but a wrong factor could be anything: clamp what does not fit an int to -1
            e["fs"] = Value::from(
                fs.iter().map(|f| if f.bits() <= 30 { json!(f.digits()[0]) } else { json!(-1) }).collect::<Vec<_>>(),
            );
        }
        Ok(Err(())) => {
            e["kind"] = json!("failure");
        }
        Err(v) => {
            let v = split_loc(fix_panic_loc(v));
            e["kind"] = v["outcome"].clone();
            for (k, x) in v.as_object().unwrap() {
                e[k] = x.clone();
            }
        }
    }
    e
}

fn sweep(w: &Value, sink: &mut dyn FnMut(Value)) -> bool {
    let id = w["id"].as_str().unwrap().to_string();
    let alg = w["alg"].as_str().unwrap().to_string();
    let lo = w["sweep"][0].as_u64().unwrap();
    let hi = w["sweep"][1].as_u64().unwrap();
    let deadline = w["deadline"].as_f64().unwrap_or(60.0);
    let a = algo_of(&alg);
    let ns: Vec<u64> = match w["ns"].as_array() {
        Some(v) if !v.is_empty() => v.iter().map(|x| x.as_u64().unwrap()).collect(),
        _ => (lo..hi).collect(),
    };
    for n in ns {
        if let Ok(mut g) = ANY_PANIC.lock() {
            *g = None;
        }
        let r = guard_deadline(deadline, move || {
            let prefs = Pref::default().build();
            factor(Uint::from(n), a, &prefs).map_err(|_| ())
        });
        let timed_out = matches!(&r, Err(v) if v["outcome"] == "timeout");
        sink(small_event(&id, &alg, n, r));
        if timed_out {
            // the abandoned thread keeps running: the rest of the sweep is dropped with this process
            return true;
        }
    }
    false
}

/// last panic seen in any thread (a panic inside a rayon worker is re-raised in the calling thread without
/// running the hook again, so the thread-local record of trace.rs is empty there)
static ANY_PANIC: std::sync::Mutex<Option<(String, String)>> = std::sync::Mutex::new(None);

fn install_global_panic_record() {
    let prev = std::panic::take_hook();
    std::panic::set_hook(Box::new(move |info| {
        let msg = if let Some(s) = info.payload().downcast_ref::<&str>() {
            s.to_string()
        } else if let Some(s) = info.payload().downcast_ref::<String>() {
            s.clone()
        } else {
            "?".to_string()
        };
        let loc = info.location().map(|l| format!("{}:{}", l.file(), l.line())).unwrap_or_default();
        if std::env::var("VERIF_BT").is_ok() {
            // triage aid only: where inside the library a panic of a dependency crate came from
            eprintln!("PANIC {} at {}\n{}", msg, loc, std::backtrace::Backtrace::force_capture());
        }
        if let Ok(mut g) = ANY_PANIC.lock() {
            if g.is_none() {
                *g = Some((msg, loc));
            }
        }
        prev(info);
    }));
}

/// fills an empty panic location from the global record, and shortens paths of dependency crates
fn fix_panic_loc(mut v: Value) -> Value {
    let rec = ANY_PANIC.lock().ok().and_then(|mut g| g.take());
    if v["outcome"] == "panic" {
        if v["loc"].as_str().unwrap_or("").is_empty() {
            if let Some((mut msg, loc)) = rec {
                msg.truncate(200);
                let loc = match loc.find("src/") {
                    Some(i) => loc[i..].to_string(),
                    None => loc,
                };
                v["msg"] = json!(msg);
                v["loc"] = json!(loc);
                v["worker_thread"] = json!(true);
            }
        }
        // ".../registry/src/<hash>/bnum-0.8.0/src/x.rs:1" -> "dep:bnum-0.8.0/src/x.rs:1"
        let loc = v["loc"].as_str().unwrap_or("").to_string();
        if let Some(i) = loc.rfind("/src/") {
            if i > 0 {
                let head = &loc[..i];
                let krate = head.rsplit('/').next().unwrap_or("");
                v["loc"] = json!(format!("dep:{}{}", krate, &loc[i..]));
            }
        }
    }
    v
}

/// `ymqv cNN --child 1 --cases F --start K --out G`
pub fn run_child(args: &Args) -> i32 {
    install_global_panic_record();
    let works = read_ndjson(arg_str(args, "cases", ""));
    let start = arg_u64(args, "start", 0) as usize;
    let path = arg_str(args, "out", "child.ndjson").to_string();
    let mut f = std::io::BufWriter::new(std::fs::File::create(&path).expect("child out"));
    for (i, w) in works.iter().enumerate().skip(start) {
        writeln!(f, "{}", json!({"begin": i})).unwrap();
        f.flush().unwrap();
        let mut buf: Vec<Value> = vec![];
        let mut sink = |e: Value| buf.push(e);
        let poisoned = if w.get("sweep").is_some() { sweep(w, &mut sink) } else { call_one(w, &mut sink) };
        for e in buf {
            writeln!(f, "{}", e).unwrap();
        }
        writeln!(f, "{}", json!({"end": i})).unwrap();
        f.flush().unwrap();
        if poisoned {
            // a hung call was abandoned: its thread (and the hook sink) cannot be trusted any more
            return 77;
        }
    }
    0
}

// ------------------------------------------------------------------------------------------------
// parent side
// ------------------------------------------------------------------------------------------------

/// runs the items of one partition; returns, per item, the events produced for it
fn run_partition(driver: &str, tag: &str, part: usize, works: &[Value]) -> Vec<Vec<Value>> {
    let exe = std::env::current_exe().expect("current_exe");
    let cases = format!("{}.cases{}.ndjson", tag, part);
    {
        let mut f = std::io::BufWriter::new(std::fs::File::create(&cases).unwrap());
        for w in works {
            writeln!(f, "{}", w).unwrap();
        }
    }
    let mut res: Vec<Vec<Value>> = vec![vec![]; works.len()];
    let mut start = 0usize;
    let mut round = 0;
    let mut hangs = 0;
    while start < works.len() {
        let outp = format!("{}.child{}.{}.ndjson", tag, part, round);
        round += 1;
        let out = Command::new(&exe)
            .args([driver, "--child", "1", "--cases", &cases, "--start", &start.to_string(), "--out", &outp])
            .stdin(Stdio::null())
            .stdout(Stdio::null())
            .stderr(Stdio::piped())
            .output()
            .expect("cannot spawn child");
        let text = std::fs::read_to_string(&outp).unwrap_or_default();
        let mut cur: Option<usize> = None;
        let mut last_done: Option<usize> = None;
        for line in text.lines() {
            let v: Value = match serde_json::from_str(line) {
                Ok(v) => v,
                Err(_) => continue, // torn last line of a killed child
            };
            if let Some(b) = v.get("begin").and_then(|x| x.as_u64()) {
                cur = Some(b as usize);
                res[b as usize].clear();
            } else if let Some(e) = v.get("end").and_then(|x| x.as_u64()) {
                last_done = Some(e as usize);
                cur = None;
            } else if let Some(c) = cur {
                res[c].push(v);
            }
        }
        let _ = std::fs::remove_file(&outp);
        let status = out.status;
        if let Some(c) = cur {
            // died inside item c
            let w = &works[c];
            let mut stderr = String::from_utf8_lossy(&out.stderr).to_string();
            if stderr.len() > 300 {
                stderr = stderr[stderr.len() - 300..].to_string();
            }
            #[cfg(unix)]
            let signal = {
                use std::os::unix::process::ExitStatusExt;
                status.signal().unwrap_or(0)
            };
            #[cfg(not(unix))]
            let signal = 0;
            let extra = json!({"kind": "abort", "outcome": "abort", "signal": signal, "code": status.code().unwrap_or(-1),
                               "msg": stderr, "file": "", "line": 0, "loc": ""});
            if w.get("sweep").is_some() {
                // the n being processed is the one after the last small event
                let lo = w["sweep"][0].as_u64().unwrap();
                let ns: Vec<u64> = match w["ns"].as_array() {
                    Some(v) if !v.is_empty() => v.iter().map(|x| x.as_u64().unwrap()).collect(),
                    _ => (lo..w["sweep"][1].as_u64().unwrap()).collect(),
                };
                let k = res[c].len();
                let n = ns.get(k).copied().unwrap_or(lo);
                let mut e = json!({"op": "small", "case": format!("{}/{}", w["id"].as_str().unwrap(), n),
                                   "alg": w["alg"], "n": n, "fs": []});
                for (k, x) in extra.as_object().unwrap() {
                    e[k] = x.clone();
                }
                res[c].push(e);
            } else {
                let n = Uint::from_str(w["n"].as_str().unwrap()).unwrap();
                let mut e = json!({"op": "ret", "case": w["id"], "alg": w["alg"], "bits": n.bits(), "fs": [], "fsd": []});
                for (k, x) in extra.as_object().unwrap() {
                    e[k] = x.clone();
                }
                res[c].push(e);
            }
            start = c + 1;
        } else if status.success() {
            break;
        } else if status.code() == Some(77) {
            start = last_done.map(|x| x + 1).unwrap_or(works.len());
            // a call that hangs costs a whole deadline: after three of them this partition stops (the timeout
            // events recorded so far decide; the rest of its items is not run)
            hangs += 1;
            if hangs >= 3 {
                eprintln!("partition {}: 3 calls did not return, remaining {} items skipped", part, works.len().saturating_sub(start));
                break;
            }
        } else {
            // the child failed outside any item: a harness problem, not the code under test
            eprintln!("child failed outside an item: {:?}\n{}", status, String::from_utf8_lossy(&out.stderr));
            std::process::exit(3);
        }
    }
    let _ = std::fs::remove_file(&cases);
    res
}

fn call_event(c: &Case, profile: &str) -> Value {
    let mut e = json!({"op": "call", "case": c.id, "alg": c.alg, "profile": profile, "n": dn(&c.n), "nd": c.n.to_string(),
                       "bits": c.n.bits(), "pref": c.pref.to_json(), "shape": c.shape, "hooks": c.hooks,
                       "known": c.primes.is_some(), "primes": [], "primesd": []});
    if let Some(ps) = &c.primes {
        let mut ps = ps.clone();
        ps.sort();
        e["primes"] = Value::from(ps.iter().map(|p| dn(p)).collect::<Vec<_>>());
        e["primesd"] = Value::from(ps.iter().map(|p| p.to_string()).collect::<Vec<_>>());
    }
    e
}

/// Runs every work item in child processes and writes the merged trace (in item order).
pub fn run_works(driver: &str, works: &[Work], out: &mut Out, out_path: &str, jobs: usize, profile: &str) {
    let jobs = jobs.max(1).min(works.len().max(1));
    // greedy balanced partition, order kept inside a partition
    let mut order: Vec<usize> = (0..works.len()).collect();
    order.sort_by_key(|&i| std::cmp::Reverse(works[i].weight()));
    let mut parts: Vec<Vec<usize>> = vec![vec![]; jobs];
    let mut loads = vec![0u64; jobs];
    for i in order {
        let b = (0..jobs).min_by_key(|&b| loads[b]).unwrap();
        parts[b].push(i);
        loads[b] += works[i].weight();
    }
    for p in parts.iter_mut() {
        p.sort();
    }
    let tag = format!("{}.{}", out_path, profile);
    let handles: Vec<_> = parts
        .iter()
        .enumerate()
        .map(|(pi, idxs)| {
            let ws: Vec<Value> = idxs.iter().map(|&i| works[i].to_json()).collect();
            let driver = driver.to_string();
            let tag = tag.clone();
            std::thread::spawn(move || run_partition(&driver, &tag, pi, &ws))
        })
        .collect();
    let mut results: Vec<Vec<Value>> = vec![vec![]; works.len()];
    for (pi, h) in handles.into_iter().enumerate() {
        let r = h.join().expect("partition thread");
        for (k, evs) in r.into_iter().enumerate() {
            results[parts[pi][k]] = evs;
        }
    }
    for (i, w) in works.iter().enumerate() {
        if let Work::One(c) = w {
            out.ev(call_event(c, profile));
        }
        for mut e in std::mem::take(&mut results[i]) {
            e["profile"] = json!(profile);
            if let Work::One(c) = w {
                if e["op"] == "ret" {
                    e["shape"] = c.shape.clone();
                    e["nd"] = json!(c.n.to_string());
                }
            }
            out.ev(e);
        }
    }
}

// ------------------------------------------------------------------------------------------------
// concretisation of abstract shapes (spec/factor/FactorShapes.tla)
// ------------------------------------------------------------------------------------------------

/// a prime > 200 of `bits` bits (at least 8) from the certified pool
pub fn big_prime(pool: &mut Pool, bits: u32) -> Uint {
    let bits = bits.max(8);
    pool.prime_with(bits, &|p| *p > Uint::from(200u64))
}

fn next_prime_u64(mut x: u64) -> u64 {
    loop {
        x += 1;
        if is_prime_u64(x) {
            return x;
        }
    }
}

/// registers a small prime (< 2^31) in the pool
pub fn reg_small(pool: &mut Pool, p: u64) -> Uint {
    let u = Uint::from(p);
    pool.chains.entry(u).or_insert_with(|| Pool::small_chain(p));
    u
}

pub const SMALLS: [u64; 46] = [
    2, 3, 5, 7, 11, 13, 17, 19, 23, 29, 31, 37, 41, 43, 47, 53, 59, 61, 67, 71, 73, 79, 83, 89, 97, 101, 103, 107, 109,
    113, 127, 131, 137, 139, 149, 151, 157, 163, 167, 173, 179, 181, 191, 193, 197, 199,
];

/// Builds n for (shape, bits); returns n and, when the shape is built from pool primes, its prime
/// factorisation.  `bits` bounds the size of the part that survives trial division.
pub fn make_n(rng: &mut StdRng, pool: &mut Pool, shape: &str, bits: u32) -> (Uint, Option<Vec<Uint>>) {
    let prod = |ps: &[Uint]| ps.iter().fold(Uint::ONE, |a, b| a * *b);
    let known = |ps: Vec<Uint>| (prod(&ps), Some(ps));
    match shape {
        "zero" => (Uint::ZERO, None),
        "one" => (Uint::ONE, Some(vec![])),
        "two" => known(vec![reg_small(pool, 2)]),
        "pow2" => known((0..bits).map(|_| reg_small(pool, 2)).collect()),
        "le200sq" => (Uint::from(rng.gen_range(2u64..40000)), None),
        "smooth" => {
            // product of small primes only
            let mut ps = vec![];
            let mut n = Uint::ONE;
            while n.bits() < bits {
                let p = SMALLS[rng.gen_range(0..SMALLS.len())];
                ps.push(reg_small(pool, p));
                n = n * Uint::from(p);
            }
            known(ps)
        }
        "wbminus" | "wbplus" => {
            let d = Uint::from(rng.gen_range(1u64..64));
            let b = Uint::ONE << bits;
            (if shape == "wbminus" { b - d } else { b + d }, None)
        }
        "ones" => ((Uint::ONE << bits) - Uint::ONE, None),
        "prime" => known(vec![big_prime(pool, bits)]),
        "p2" => {
            let p = big_prime(pool, bits / 2);
            known(vec![p, p])
        }
        "pk" => {
            let k = [3u32, 4, 5, 6, 7][rng.gen_range(0..5)];
            let p = big_prime(pool, bits / k);
            known((0..k).map(|_| p).collect())
        }
        "pq" => {
            let p = big_prime(pool, bits / 2);
            let q = big_prime(pool, bits - (bits / 2).max(8));
            known(vec![p, q])
        }
        "pq13" => {
            let p = big_prime(pool, bits / 3);
            let q = big_prime(pool, bits - (bits / 3).max(8));
            known(vec![p, q])
        }
        "closepq" => {
            // both below 2^31 so that trial division certifies them
            let pb = (bits / 2).clamp(8, 31);
            let p = loop {
                let c = rand_bits(rng, pb).digits()[0] | 1;
                if is_prime_u64(c) && c > 200 && next_prime_u64(c) < (1 << 31) {
                    break c;
                }
            };
            let q = next_prime_u64(p);
            known(vec![reg_small(pool, p), reg_small(pool, q)])
        }
        "p2q" => {
            let p = big_prime(pool, bits / 3);
            let q = big_prime(pool, bits - 2 * (bits / 3).max(8));
            known(vec![p, p, q])
        }
        "p2q2" => {
            let p = big_prime(pool, bits / 4);
            let q = big_prime(pool, bits / 2 - (bits / 4).max(8));
            known(vec![p, p, q, q])
        }
        "pqr" => {
            let p = big_prime(pool, bits / 3);
            let q = big_prime(pool, bits / 3);
            let r = big_prime(pool, bits - 2 * (bits / 3).max(8));
            known(vec![p, q, r])
        }
        "smallpq" => {
            // 5-8 small primes times pq
            let mut ps = vec![];
            for _ in 0..rng.gen_range(5..=8) {
                ps.push(reg_small(pool, SMALLS[rng.gen_range(0..SMALLS.len())]));
            }
            ps.push(big_prime(pool, bits / 2));
            ps.push(big_prime(pool, bits - (bits / 2).max(8)));
            known(ps)
        }
        "fbcollide" => {
            // one prime factor in 200..2000 (inside every factor base), times pq
            let f = loop {
                let c = rng.gen_range(201u64..2000);
                if is_prime_u64(c) {
                    break c;
                }
            };
            let rest = bits.saturating_sub(11).max(16);
            let p = big_prime(pool, rest / 2);
            let q = big_prime(pool, rest - (rest / 2).max(8));
            known(vec![reg_small(pool, f), p, q])
        }
        "p3q" => {
            let f = loop {
                let c = rng.gen_range(201u64..1000);
                if is_prime_u64(c) {
                    break c;
                }
            };
            let p = reg_small(pool, f);
            // bits bounds the whole (reduced) n: selectors assert on it
            let used = (Uint::from(f) * Uint::from(f) * Uint::from(f)).bits();
            let q = big_prime(pool, bits.saturating_sub(used).max(8));
            known(vec![p, p, p, q])
        }
        "twotiny" => {
            // 2..3 distinct primes just above the trial-division bound, times one large prime
            let tiny: Vec<u64> = (211u64..400).filter(|&c| is_prime_u64(c)).collect();
            let mut ps: Vec<Uint> = vec![];
            let k = rng.gen_range(2..=3);
            while ps.len() < k {
                let c = reg_small(pool, tiny[rng.gen_range(0..tiny.len())]);
                if !ps.contains(&c) {
                    ps.push(c);
                }
            }
            let used = ps.iter().fold(Uint::ONE, |a, b| a * *b).bits();
            ps.push(big_prime(pool, bits.saturating_sub(used).max(8)));
            known(ps)
        }
        "smallcof" => {
            // several factors of at most 40 bits and one large prime (the working range of pure ECM)
            let mut ps = vec![];
            let mut left = bits;
            let nsmall = rng.gen_range(1..=3);
            for _ in 0..nsmall {
                let b = rng.gen_range(10..=36).min(left.saturating_sub(10)).max(8);
                ps.push(big_prime(pool, b));
                left = left.saturating_sub(b);
            }
            ps.push(big_prime(pool, left.max(8)));
            known(ps)
        }
        _ => panic!("unknown shape {}", shape),
    }
}

/// a probable prime of `bits` bits without certificate (C03 only needs inputs that finish)
pub fn plain_prime(rng: &mut StdRng, bits: u32) -> Uint {
    loop {
        let c = rand_bits(rng, bits) | Uint::ONE;
        if probably_prime(rng, &c) {
            return c;
        }
    }
}

/// a prime q of about `bits` bits (<= 62) such that q - 1 is 13-smooth: found by the first block of P-1
pub fn smooth_prime(rng: &mut StdRng, bits: u32) -> u64 {
    loop {
        let mut m: u64 = 2;
        while 64 - m.leading_zeros() < bits {
            m *= [2u64, 3, 5, 7, 11, 13][rng.gen_range(0..6)];
        }
        if is_prime_u64(m + 1) {
            return m + 1;
        }
    }
}

/// writes the certificate file of every prime handed out by the pool (validated by FactorTrace, op "cert")
pub fn write_certs(pool: &Pool, path: &str) -> usize {
    let mut out = Out::create(path);
    let mut keys: Vec<&Uint> = pool.chains.keys().collect();
    keys.sort();
    for (i, p) in keys.iter().enumerate() {
        out.ev(json!({"op": "cert", "case": format!("cert/{}", i), "pd": p.to_string(), "chain": pool.chains[*p]}));
    }
    out.finish()
}

pub fn jobs_arg(args: &Args) -> usize {
    let j = arg_u64(args, "jobs", 0) as usize;
    if j > 0 {
        j
    } else {
        std::env::var("VERIF_JOBS").ok().and_then(|s| s.parse().ok()).unwrap_or(4)
    }
}

// ------------------------------------------------------------------------------------------------
// work lists of the three properties
// ------------------------------------------------------------------------------------------------

fn default_fb(alg: &str, n: &Uint) -> u64 {
    let bits = n.bits();
    (match alg {
        "qs" => yamaquasi::params::qs_fb_size(bits, false),
        "mpqs" => yamaquasi::params::mpqs_fb_size(bits, false),
        _ => yamaquasi::params::factor_base_size(n),
    }) as u64
}

/// preference record of a shape -> concrete preferences (fb: 1 = half / 2 = twice the default size)
fn concrete_pref(p: &Value, alg: &str, n: &Uint) -> Pref {
    let mut r = Pref::from_json(p);
    r.fb = match r.fb {
        0 => 0,
        1 => (default_fb(alg, n) / 2).max(16),
        _ => (default_fb(alg, n) * 2).max(16),
    };
    r
}

struct BigCache {
    primes: std::collections::HashMap<u32, Uint>,
}

impl BigCache {
    fn prime(&mut self, rng: &mut StdRng, bits: u32) -> Uint {
        *self.primes.entry(bits).or_insert_with(|| plain_prime(rng, bits))
    }
}

/// shapes of the size-limit band (C03); factorisation not certified
fn make_limit(rng: &mut StdRng, cache: &mut BigCache, shape: &str, bits: u32) -> Uint {
    match shape {
        "qP" => {
            let p = cache.prime(rng, bits - 30);
            loop {
                let q = smooth_prime(rng, 30);
                let n = p * Uint::from(q);
                if n.bits() == bits {
                    return n;
                }
            }
        }
        // P-1 structured, non-squarefree: p^2 * q [* r] with p - 1 13-smooth (p comes out of the first stage-1 block, one
        // copy only) and q - 1 = 2 s l with l a prime that stage 1 reaches in a LATER block (the last primes below 65536 for
        // B1 = 65536, i.e. inputs of 81..120 bits; a prime in (65536, 262144) for 121..160 bits); r a plain prime that
        // stays unfound.  The parts P-1 returns at different steps must still multiply to n.
        "sp2q" => {
            let p = Uint::from(smooth_prime(rng, 28));
            let l: u64 = if bits <= 120 {
                [65521u64, 65519, 65497, 65479][rng.gen_range(0..4)]
            } else {
                loop {
                    let c = rng.gen_range(65537u64..262144) | 1;
                    if is_prime_u64(c) {
                        break c;
                    }
                }
            };
            let q = loop {
                let mut m: u64 = 2 * l;
                while 64 - m.leading_zeros() < 44 {
                    m *= [2u64, 3, 5, 7, 11, 13][rng.gen_range(0..6)];
                }
                if is_prime_u64(m + 1) {
                    break Uint::from(m + 1);
                }
            };
            let n = p * p * q;
            if bits > n.bits() + 20 {
                n * plain_prime(rng, bits - n.bits())
            } else {
                n
            }
        }
        // the largest numbers of a word size that survive trial division: p * q with p a 3..4-digit prime and q the
        // largest prime with p q < 2^bits (within ~2^20 of the word boundary: k n, n + r and isqrt(k n) at their extremes)
        "topword" => {
            let p = loop {
                let c = rng.gen_range(211u64..8000) | 1;
                if is_prime_u64(c) {
                    break c;
                }
            };
            let top: u128 = (1u128 << bits) - 1;
            let mut q = (top / p as u128) as u64;
            if q % 2 == 0 {
                q -= 1;
            }
            while !is_prime_u64(q) {
                q -= 2;
            }
            Uint::from(p) * Uint::from(q)
        }
        "bigprime" => cache.prime(rng, bits),
        // above the limit *after* trial division: no prime factor below 200
        "over_random" => loop {
            let n = rand_bits(rng, bits) | Uint::ONE;
            if SMALLS.iter().all(|&p| !(n % Uint::from(p)).is_zero()) {
                return n;
            }
        },
        "over_qP" => loop {
            let q = smooth_prime(rng, 30);
            let qb = 64 - q.leading_zeros();
            let n = (rand_bits(rng, bits - qb + 1) | Uint::ONE) * Uint::from(q); // bits or bits + 1 <= 1024 bits
            if n.bits() > 512 && SMALLS.iter().all(|&p| !(n % Uint::from(p)).is_zero()) {
                return n;
            }
        },
        "over_p2" => {
            let p = cache.prime(rng, (bits + 1) / 2);
            p * p
        }
        "over_pow2" => (Uint::ONE << (bits - 2)) * Uint::from(3u64),
        _ => panic!("unknown limit shape {}", shape),
    }
}

pub fn works_from_shapes(shapes: &[Value], seed: u64, salt: &str, reps: u64, pool: &mut Pool, deadline: f64) -> Vec<Work> {
    let mut rng = crate::gen::rng_for(seed, salt);
    let mut cache = BigCache { primes: Default::default() };
    let mut works = vec![];
    for (si, sh) in shapes.iter().enumerate() {
        let shape = sh["shape"].as_str().unwrap();
        let bits = sh["bits"].as_u64().unwrap() as u32;
        let alg = sh["alg"].as_str().unwrap();
        let deterministic = matches!(shape, "zero" | "one" | "two" | "pow2" | "ones" | "over_pow2");
        // shapes whose interesting branch is only taken on a fraction of the inputs get more instances
        let reps = if (shape == "p3q" && matches!(alg, "qs" | "mpqs" | "siqs")) || shape == "sp2q" || shape == "topword" { 4 * reps } else { reps };
        // volume: plain semiprimes in numbers, for branches that depend on arithmetic accidents of n (which multiplier
        // scores best, which primes land in the factor base) and are taken by a fraction of a percent of the inputs
        let (shape, reps) = if shape == "pqvol" { ("pq", 240 * reps) } else { (shape, reps) };
        for rep in 0..(if deterministic { 1 } else { reps }) {
            let (n, primes) = if matches!(shape, "qP" | "bigprime" | "sp2q" | "topword") || shape.starts_with("over_") {
                (make_limit(&mut rng, &mut cache, shape, bits), None)
            } else {
                make_n(&mut rng, pool, shape, bits)
            };
            let pref = concrete_pref(&sh["pref"], alg, &n);
            works.push(Work::One(Case {
                id: format!("{}/{}/{}", salt, si, rep),
                n,
                alg: alg.to_string(),
                pref,
                deadline,
                hooks: true,
                primes,
                shape: sh.clone(),
            }));
        }
    }
    works
}

/// composite numbers below `bound` that survive trial division by the primes < 200: p*q, 211 <= p <= q
pub fn rough_composites(bound: u64) -> Vec<u64> {
    let ps: Vec<u64> = (211..=bound / 211).filter(|&p| is_prime_u64(p)).collect();
    let mut v = vec![];
    for (i, &p) in ps.iter().enumerate() {
        for &q in &ps[i..] {
            if p * q < bound {
                v.push(p * q);
            } else {
                break;
            }
        }
    }
    v.sort();
    v
}

pub fn sweep_works(prefix: &str, alg: &str, lo: u64, hi: u64, chunk: u64, deadline: f64) -> Vec<Work> {
    let mut v = vec![];
    let mut a = lo;
    while a < hi {
        let b = (a + chunk).min(hi);
        v.push(Work::Sweep { id: format!("{}/{}", prefix, alg), alg: alg.to_string(), lo: a, hi: b, ns: vec![], deadline });
        a = b;
    }
    v
}

pub fn list_works(prefix: &str, alg: &str, ns: &[u64], chunk: usize, deadline: f64) -> Vec<Work> {
    ns.chunks(chunk)
        .map(|c| Work::Sweep { id: format!("{}/{}", prefix, alg), alg: alg.to_string(), lo: c[0], hi: c[c.len() - 1] + 1,
                               ns: c.to_vec(), deadline })
        .collect()
}

/// composites below `bound` that pass the strong (Miller) test for bases 2 and 3 - the adversarial inputs for
/// the first tier of the library's 64-bit primality test, found with the harness's own arithmetic
pub fn spsp23_list(bound: u64) -> Vec<u64> {
    let mm = |a: u64, b: u64, n: u64| ((a as u128 * b as u128) % n as u128) as u64;
    let strong = |n: u64, a: u64| -> bool {
        let mut d = n - 1;
        let mut s = 0;
        while d % 2 == 0 {
            d /= 2;
            s += 1;
        }
        let (mut x, mut b, mut e) = (1u64, a % n, d);
        while e > 0 {
            if e & 1 == 1 {
                x = mm(x, b, n);
            }
            b = mm(b, b, n);
            e >>= 1;
        }
        if x == 1 || x == n - 1 {
            return true;
        }
        for _ in 1..s {
            x = mm(x, x, n);
            if x == n - 1 {
                return true;
            }
        }
        false
    };
    let mut v = vec![];
    let mut n = 9u64;
    while n < bound {
        if strong(n, 2) && strong(n, 3) && !is_prime_u64(n) {
            v.push(n);
        }
        n += 2;
    }
    v
}

/// prime factorisation of a 64-bit number by trial division (harness side; used for numbers with small factors)
pub fn trial_factor(mut n: u64) -> Vec<u64> {
    let mut f = vec![];
    let mut d = 2u64;
    while d * d <= n {
        while n % d == 0 {
            f.push(d);
            n /= d;
        }
        d += if d == 2 { 1 } else { 2 };
        if d > (1 << 27) {
            break;
        }
    }
    if n > 1 {
        f.push(n);
    }
    f
}

/// Known strong pseudoprimes / Carmichael numbers above 2^31 (psi_5, psi_6, psi_7 = psi_8, psi_9 = psi_10 = psi_11,
/// the Carmichael number of the repository's own test) and small multiples: composites that the primality test
/// behind every recursion step must reject; their factorisation is found by trial division here.
pub fn pseudoprime_cases(prefix: &str, pool: &mut Pool, deadline: f64) -> Vec<Work> {
    let base: [u64; 5] = [2152302898747, 3474749660383, 341550071728321, 3825123056546413051, 9746347772161];
    let mut works = vec![];
    let mut i = 0;
    for &b in &base {
        for k in [1u64, 3, 2 * 199, 211] {
            let Some(n) = b.checked_mul(k) else { continue };
            let ps = trial_factor(n);
            if ps.iter().any(|&p| p >= 1 << 31 || !is_prime_u64(p)) {
                continue;
            }
            let primes: Vec<Uint> = ps.iter().map(|&p| reg_small(pool, p)).collect();
            works.push(Work::One(Case {
                id: format!("{}/spsp/{}", prefix, i),
                n: Uint::from(n),
                alg: "auto".to_string(),
                pref: Pref::default(),
                deadline,
                hooks: true,
                primes: Some(primes),
                shape: json!({"shape": "spsp", "bits": 64 - b.leading_zeros(), "alg": "auto", "pref": {}}),
            }));
            i += 1;
        }
    }
    works
}

/// common entry point of the c01 / c02 / c03 drivers
pub fn run_prop(args: &Args, prop: &str) -> i32 {
    // a panic here is a bug of the driver itself (the code under test only runs in child processes, guarded)
    match guard(|| run_prop_inner(args, prop)) {
        Ok(c) => c,
        Err(v) => {
            eprintln!("driver error: {}", v);
            3
        }
    }
}

fn run_prop_inner(args: &Args, prop: &str) -> i32 {
    if args.contains_key("child") {
        return run_child(args);
    }
    let driver = prop.to_lowercase();
    let seed = arg_u64(args, "seed", 1);
    let thorough = arg_str(args, "tier", "quick") == "thorough";
    let profile = arg_str(args, "profile", "release").to_string();
    let out_path = arg_str(args, "out", "trace.ndjson").to_string();
    let shapes = read_ndjson(arg_str(args, "shapes", "shapes.ndjson"));
    let reps = arg_u64(args, "reps", if thorough { 3 } else if prop == "C02" { 2 } else { 1 });
    // far above any driven call (the slowest take ~10 s unloaded in the checked profile): a loaded machine must not
    // turn a slow call into a reported hang
    let deadline = if thorough { 1800.0 } else { 600.0 };
    let only = args.get("only").cloned(); // replay: a single case id
    let mut pool = Pool::new(seed);
    let mut works = works_from_shapes(&shapes, seed, &driver, reps, &mut pool, deadline);
    let sd = 60.0;
    match prop {
        "C01" => {
            // an abort request is a preference like the others: the returned list must still be a valid one
            // (pending from the start, or from the 2nd / 5th poll on) - small, smooth and simple inputs
            {
                let mut arng = crate::gen::rng_for(seed, "c01-abort");
                let mut i = 0;
                for shape in ["two", "smooth", "le200sq", "pow2", "pq", "p2q", "smallpq"] {
                    for alg in ALGOS {
                        for abort in [1u64, 2, 5] {
                            let bits = if matches!(alg, "rho" | "squfof" | "qs64") { 48 } else { 64 };
                            let (n, primes) = make_n(&mut arng, &mut pool, shape, if shape == "pow2" { 12 } else { bits });
                            works.push(Work::One(Case {
                                id: format!("{}/abort/{}", driver, i),
                                n,
                                alg: alg.to_string(),
                                pref: Pref { abort, ..Pref::default() },
                                deadline,
                                hooks: true,
                                primes,
                                shape: json!({"shape": shape, "bits": bits, "alg": alg, "pref": {"abort": abort}}),
                            }));
                            i += 1;
                        }
                    }
                }
            }
            works.extend(sweep_works("s", "auto", 0, if thorough { 1 << 18 } else { 1 << 16 }, 2048, sd));
            let rc = rough_composites(if thorough { 1 << 20 } else { 1 << 17 });
            for alg in ["rho", "ecm128", "siqs", "squfof", "qs", "mpqs", "pm1", "ecm"] {
                works.extend(sweep_works("s", alg, 0, 1 << 12, 2048, sd));
                works.extend(list_works("r", alg, &rc, 512, sd));
            }
        }
        "C02" => {
            works.extend(sweep_works("s", "auto", 0, if thorough { 1 << 18 } else { 1 << 16 }, 2048, sd));
            let rc = rough_composites(if thorough { 1 << 20 } else { 1 << 17 });
            for alg in ["auto", "ecm", "ecm128"] {
                works.extend(list_works("r", alg, &rc, 512, sd));
            }
            // adversarial composites for the primality test every recursion step relies on
            let sp = spsp23_list(if thorough { 1 << 25 } else { 1 << 23 });
            works.extend(list_works("p", "auto", &sp, 64, sd));
            let sp3: Vec<u64> = sp.iter().map(|&n| 3 * n).filter(|&n| n < 1 << 30).collect();
            works.extend(list_works("p", "auto", &sp3, 64, sd));
            works.extend(pseudoprime_cases(&driver, &mut pool, deadline));
        }
        _ => {
            let rc = rough_composites(if thorough { 1 << 19 } else { 1 << 17 });
            for alg in ALGOS {
                works.extend(sweep_works("s", alg, 0, 1 << 12, 1024, sd));
                works.extend(list_works("r", alg, &rc, 256, sd));
            }
        }
    }
    if let Some(id) = only {
        // replay of one recorded case: a single call, or the n of a small event "prefix/alg/n"
        let parts: Vec<&str> = id.split('/').collect();
        works = if parts.len() == 3 && (parts[0] == "s" || parts[0] == "r" || parts[0] == "p") {
            let n: u64 = parts[2].parse().expect("n");
            vec![Work::Sweep { id: format!("{}/{}", parts[0], parts[1]), alg: parts[1].to_string(), lo: n, hi: n + 1,
                               ns: vec![n], deadline: sd }]
        } else {
            works.into_iter().filter(|w| matches!(w, Work::One(c) if c.id == id)).collect()
        };
    }
    if let Some(c) = args.get("certs") {
        write_certs(&pool, c);
    }
    let mut out = Out::create(&out_path);
    run_works(&driver, &works, &mut out, &out_path, jobs_arg(args), &profile);
    out.finish();
    0
}
