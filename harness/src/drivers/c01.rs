//! C01 driver (stub: not built yet).
use crate::trace::Args;

pub fn run(_args: &Args) -> i32 {
    eprintln!("driver c01 not built yet");
    2
}
