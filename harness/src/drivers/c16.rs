//! C16 driver: group-order methods (P-1, P+1, ECM 512/128-bit, PM1Base) on instances built to order,
//! stage-2 grids as the real runs build them, and the splits returned by rho / gcd_factors.
//!
//! Events (judged by spec/stage2/Stage2Trace.tla):
//!   row    one row (B2, d1, d2) of a stage-2 table of the code (discovered by probing / hook)
//!   grid   the baby exponents and giant multiples a real run pushed (hook events s2_*), with
//!          (B1, B2 requested, B2 reported, d1, d2)
//!   inst   n = p*q built so that the method's group order at p is  s * l  (s a product of prime
//!          powers below B1, l a prime in (B1, B2eff]) while q is provably not caught (its group
//!          order has a certified prime factor f beyond every bound); carries the certificates and
//!          the result of ONE run
//!   split  a pair/list returned by rho64 / rho_impl / rho / gcd_factors
//!   expmod / cheb   the exponentiation helpers against their definitions
//! The harness only searches and schedules; every claim it makes travels as a certificate that the
//! specification re-verifies (Witness) before the Strict predicate is evaluated.

use std::collections::{BTreeMap, BTreeSet};

use rand::rngs::StdRng;
use rand::Rng;
use serde_json::{json, Value};

use yamaquasi::arith_montgomery::{gcd_factors, MInt, ZmodN};
use yamaquasi::ecm::{vhook as eh, Curve, SmoothBase, Suyama11};
use yamaquasi::ecm128::vhook as h128;
use yamaquasi::{params, pollard_pm1, pollard_rho, pp1, Verbosity};

use crate::gen::{is_prime_u64, rand_bits, rng_for, Uint};
use crate::trace::*;

// ------------------------------------------------------------------------------------------
// small native arithmetic (search side only)
// ------------------------------------------------------------------------------------------
fn mm(a: u64, b: u64, n: u64) -> u64 {
    ((a as u128 * b as u128) % n as u128) as u64
}
fn pw(mut b: u64, mut e: u64, n: u64) -> u64 {
    let mut r = 1 % n;
    b %= n;
    while e > 0 {
        if e & 1 == 1 {
            r = mm(r, b, n);
        }
        b = mm(b, b, n);
        e >>= 1;
    }
    r
}
fn gcd64(mut a: u64, mut b: u64) -> u64 {
    while b != 0 {
        let t = a % b;
        a = b;
        b = t;
    }
    a
}
/// Legendre symbol by Euler's criterion (p an odd prime): 1, p-1 (= -1) or 0
fn euler(a: u64, p: u64) -> u64 {
    pw(a % p, (p - 1) / 2, p)
}
/// V_k(s) mod q of the Lucas sequence V_0 = 2, V_1 = s, V_{m+1} = s V_m - V_{m-1}
fn lucas_v(s: u64, k: u64, q: u64) -> u64 {
    if k == 0 {
        return 2 % q;
    }
    let sub = |a: u64, b: u64| (a + q - b % q) % q;
    let (mut vk, mut vk1) = (s % q, sub(mm(s, s, q), 2));
    let bits = 64 - k.leading_zeros();
    for i in (0..bits - 1).rev() {
        if (k >> i) & 1 == 0 {
            vk1 = sub(mm(vk, vk1, q), s);
            vk = sub(mm(vk, vk, q), 2);
        } else {
            vk = sub(mm(vk, vk1, q), s);
            vk1 = sub(mm(vk1, vk1, q), 2);
        }
    }
    vk
}
fn factor_small(mut x: u64) -> Vec<(u64, u32)> {
    let mut v = vec![];
    let mut d = 2;
    while d * d <= x {
        if x % d == 0 {
            let mut e = 0;
            while x % d == 0 {
                x /= d;
                e += 1;
            }
            v.push((d, e));
        }
        d += if d == 2 { 1 } else { 2 };
    }
    if x > 1 {
        v.push((x, 1));
    }
    v
}
/// every prime power component of s is below b1
fn smooth_below(s: u64, b1: u64) -> Option<Vec<(u64, u32)>> {
    let f = factor_small(s);
    for &(r, e) in &f {
        if r.pow(e) >= b1 {
            return None;
        }
    }
    Some(f)
}
fn primes_in(lo: u64, hi: u64) -> Vec<u64> {
    (lo..=hi).filter(|&x| is_prime_u64(x)).collect()
}
fn next_prime(mut x: u64) -> u64 {
    loop {
        x += 1;
        if is_prime_u64(x) {
            return x;
        }
    }
}
fn prev_prime(mut x: u64) -> u64 {
    loop {
        x -= 1;
        if is_prime_u64(x) {
            return x;
        }
    }
}

type E3 = (u64, u64, u64);
/// the addition law with cleared denominators modulo a small prime, a = -1
fn ed_add(d: u64, p: u64, a: &E3, b: &E3) -> E3 {
    let sub = |x: u64, y: u64| (x + p - y) % p;
    let zz = mm(a.2, b.2, p);
    let bb = mm(zz, zz, p);
    let x1x2 = mm(a.0, b.0, p);
    let y1y2 = mm(a.1, b.1, p);
    let n1 = (mm(a.0, b.1, p) + mm(a.1, b.0, p)) % p;
    let n2 = (y1y2 + x1x2) % p; // y1y2 - a x1x2 with a = -1
    let e = mm(d, mm(x1x2, y1y2, p), p);
    let f = sub(bb, e);
    let g = (bb + e) % p;
    (mm(mm(n1, zz, p), f, p), mm(mm(n2, zz, p), g, p), mm(f, g, p))
}
/// MSB-first double-and-add, exactly the algorithm of EdwardsLaw!ScalarMul
fn ed_mul(d: u64, p: u64, k: u64, g: &E3) -> E3 {
    let mut r = (0, 1, 1);
    for i in (0..64 - k.leading_zeros()).rev() {
        r = ed_add(d, p, &r, &r);
        if (k >> i) & 1 == 1 {
            r = ed_add(d, p, &r, g);
        }
    }
    r
}
fn ed_is_id(r: &E3) -> bool {
    r.0 == 0 && r.1 == r.2 && r.2 != 0
}
fn ed_clean_nonid(r: &E3) -> bool {
    r.2 != 0 && !(r.0 == 0 && r.1 == r.2)
}

/// curve of the Suyama-11 family for `seed`, built by the library over modulus n: (d, G) plain
fn suyama_curve(n: &Uint, seed: u32) -> Option<(ZmodN, Curve, Uint, (Uint, Uint, Uint))> {
    let zn = ZmodN::new(*n);
    let r = guard(|| {
        let s = Suyama11::new(&zn).ok()?;
        let g = s.element(seed).and_then(|p| s.params_point(&p)).ok()?;
        Curve::twisted_from_point(zn.clone(), g).ok()
    });
    let c = r.ok()??;
    let (_, d) = c.a_d();
    let g = eh::coords(c.gen());
    let g = (zn.to_int(g.0), zn.to_int(g.1), zn.to_int(g.2));
    Some((zn, c, d, g))
}
fn small_curve(p: u64, seed: u32) -> Option<(u64, E3)> {
    let (_, _, d, g) = suyama_curve(&Uint::from(p), seed)?;
    let lo = |x: &Uint| x.digits()[0];
    let g = (lo(&g.0), lo(&g.1), lo(&g.2));
    if g.2 == 0 || g.0 == 0 {
        return None;
    }
    Some((lo(&d), g))
}

// ------------------------------------------------------------------------------------------
// tables
// ------------------------------------------------------------------------------------------
#[derive(Clone, Copy, Debug, PartialEq)]
struct Row {
    b2: u64,
    d1: u64,
    d2: u64,
}

fn params_rows(maxb2: u64) -> Vec<Row> {
    // the table of params.rs is private: probe the public selector on a fine geometric sweep
    let mut rows: Vec<Row> = vec![];
    let mut x = 50.0f64;
    while x < 2.2 * maxb2 as f64 {
        let (b2, d1, d2) = params::stage2_params(x);
        let r = Row { b2: b2 as u64, d1, d2 };
        if !rows.contains(&r) {
            rows.push(r);
        }
        x *= 1.001;
    }
    rows.retain(|r| r.b2 <= maxb2);
    rows
}
fn pm1_rows(maxb2: u64) -> Vec<Row> {
    pollard_pm1::vhook::stage2_table().iter().map(|&(b2, d1, d2)| Row { b2: b2 as u64, d1, d2 }).filter(|r| r.b2 <= maxb2).collect()
}

// ------------------------------------------------------------------------------------------
// running one method, capturing its grid events
// ------------------------------------------------------------------------------------------
#[derive(Clone, Debug)]
enum Method {
    Pm1 { b1: u64, b2: f64 },
    Pp1 { seed: u64, b1: u64, b2: f64 },
    Ecm { seed: u32, b1: u64, b2: f64 },
    Ecm128 { seed: u32, b1: u64, b2: f64 },
    Pm1Base { budget: usize },
}

impl Method {
    fn name(&self) -> &'static str {
        match self {
            Method::Pm1 { .. } => "pm1",
            Method::Pp1 { .. } => "pp1",
            Method::Ecm { .. } => "ecm",
            Method::Ecm128 { .. } => "ecm128",
            Method::Pm1Base { .. } => "pm1b",
        }
    }
}

struct RunOut {
    /// {"some": bool, "parts": [digits]} or {"outcome": ...}; "skip" when the curve could not be built
    res: Value,
    hooks: Vec<Value>,
    curve: Option<Value>,
}

fn parts_value(r: Option<Vec<Uint>>) -> Value {
    match r {
        None => json!({"some": false, "parts": []}),
        Some(v) => json!({"some": true, "parts": v.iter().map(dn).collect::<Vec<_>>(), "partsd": v.iter().map(|x| x.to_string()).collect::<Vec<_>>()}),
    }
}

fn run_method(n: &Uint, m: &Method) -> RunOut {
    let nn = *n;
    let mm_ = m.clone();
    let mut curve = None;
    yamaquasi::verif::start();
    let r: Result<Option<Value>, Value> = match m {
        Method::Pm1 { b1, b2 } => {
            let (b1, b2) = (*b1, *b2);
            guard_deadline(600.0, move || {
                Some(parts_value(pollard_pm1::pm1_impl(&nn, b1, b2, Verbosity::Silent).map(|(mut f, r)| {
                    f.push(r);
                    f
                })))
            })
        }
        Method::Pp1 { seed, b1, b2 } => {
            let (seed, b1, b2) = (*seed, *b1, *b2);
            guard_deadline(600.0, move || {
                Some(parts_value(pp1::pp1(nn, seed, b1, b2, Verbosity::Silent).map(|(mut f, r)| {
                    f.push(r);
                    f
                })))
            })
        }
        Method::Ecm { seed, b1, b2 } => match suyama_curve(n, *seed) {
            None => Ok(None),
            Some((zn, c, d, g)) => {
                curve = Some(json!({"d": dn(&d), "g": [dn(&g.0), dn(&g.1), dn(&g.2)]}));
                let (b1, b2) = (*b1, *b2);
                guard_deadline(600.0, move || {
                    let sb = SmoothBase::new(b1 as usize, true);
                    // the public entry point hands the table value of B2 to the single-curve routine
                    let b2t = params::stage2_params(b2).0;
                    Some(parts_value(eh::ecm_curve(&sb, &zn, &c, b2t).map(|(a, b)| vec![a, b])))
                })
            }
        },
        Method::Ecm128 { seed, b1, b2 } => match suyama_curve(n, *seed) {
            None => Ok(None),
            Some((zn, c, d, g)) => {
                curve = Some(json!({"d": dn(&d), "g": [dn(&g.0), dn(&g.1), dn(&g.2)]}));
                let (b1, b2) = (*b1, *b2);
                guard_deadline(600.0, move || {
                    let sb = SmoothBase::new(b1 as usize, false);
                    let n128 = nn.digits()[0] as u128 | (nn.digits()[1] as u128) << 64;
                    let gm = eh::coords(c.gen());
                    let lo = |m: &MInt| m.0[0] as u128 | (m.0[1] as u128) << 64;
                    let c128 = h128::from_point(n128, &(lo(&gm.0), lo(&gm.1), lo(&gm.2)));
                    let _ = &zn;
                    Some(parts_value(h128::ecm_curve(&c128, &sb, b2).map(|(a, b)| vec![Uint::from(a), Uint::from(b)])))
                })
            }
        },
        Method::Pm1Base { budget } => {
            let budget = *budget;
            guard_deadline(600.0, move || {
                let pb = pollard_pm1::PM1Base::new();
                Some(parts_value(pb.factor(nn.digits()[0], budget).map(|(a, b)| vec![Uint::from(a), Uint::from(b)])))
            })
        }
    };
    let _ = mm_;
    let hooks: Vec<Value> = yamaquasi::verif::stop().iter().filter_map(|s| serde_json::from_str::<Value>(s).ok()).filter(|v| v["op"].as_str().map(|o| o.starts_with("s2_")).unwrap_or(false)).collect();
    let res = match r {
        Ok(Some(v)) => v,
        Ok(None) => json!({"skip": true}),
        Err(e) => e,
    };
    RunOut { res, hooks, curve }
}

/// aggregates the hook events of one run into one grid event body (None when stage 2 was not reached)
fn grid_of(hooks: &[Value], want: &str) -> Option<Value> {
    let of = |op: &str, m: &str| -> Vec<&Value> { hooks.iter().filter(|h| h["op"] == op && h["m"] == m).collect() };
    let ints = |v: Vec<&Value>, f: &str| -> Vec<u64> { v.iter().filter_map(|h| h[f].as_u64()).collect() };
    match want {
        "ecm" | "ecm128" | "pp1" => {
            let hdr = *of("s2_hdr", want).first()?;
            let giants = ints(of("s2_g", want), "k");
            if giants.is_empty() {
                return None;
            }
            Some(json!({"b2": hdr["b2"], "b2rep": hdr["b2rep"], "d1": hdr["d1"], "d2": hdr["d2"],
                        "babies": ints(of("s2_b", want), "e"), "giants": giants}))
        }
        "pm1" => {
            let hdr = *of("s2_hdr", "pm1").first()?;
            if let Some(ph) = of("s2_hdr", "pm1poly").first() {
                let conv = *of("s2_conv", "pm1poly").first()?;
                Some(json!({"kind": "poly", "b1": hdr["b1"], "b2": hdr["b2"], "b2rep": hdr["b2rep"], "d1": ph["d1"], "d2": ph["d2"],
                            "babies": ints(of("s2_b", "pm1poly"), "e"), "plen": conv["plen"], "nvals": conv["nvals"]}))
            } else {
                let w = ints(of("s2_w", "pm1"), "p");
                if w.is_empty() {
                    return None;
                }
                Some(json!({"kind": "walk", "b1": hdr["b1"], "b2": hdr["b2"], "b2rep": hdr["b2rep"], "walk": w}))
            }
        }
        "pm1b" => {
            let hdr = *of("s2_hdr", "pm1b").first()?;
            let w = ints(of("s2_w", "pm1b"), "p");
            if w.len() < 2 {
                return None;
            }
            Some(json!({"budget": hdr["budget"], "fmax": hdr["fmax"], "nfac": hdr["nfac"], "pmax": hdr["pmax"], "first": w[0], "last": w[w.len() - 1]}))
        }
        _ => None,
    }
}

// ------------------------------------------------------------------------------------------
// instance construction
// ------------------------------------------------------------------------------------------
/// stage-2 primes worth trying for a grid (d1, d2) and bounds (b1, b2eff]
fn targets(rng: &mut StdRng, b1: u64, b2eff: u64, d1: u64, d2: u64, nrand: usize) -> Vec<u64> {
    let mut t = BTreeSet::new();
    let all_small = b2eff - b1 < 400;
    if all_small {
        return primes_in(b1 + 1, b2eff);
    }
    // first and last three primes
    let mut x = b1;
    for _ in 0..3 {
        x = next_prime(x);
        t.insert(x);
    }
    let mut x = b2eff + 1;
    for _ in 0..3 {
        x = prev_prime(x);
        t.insert(x);
    }
    if d1 > 0 {
        // primes adjacent to multiples of d1, near both ends and in the middle of the grid
        for k in [1, 2, d2 / 2, d2.saturating_sub(1), d2, d2 + 1] {
            if k == 0 {
                continue;
            }
            let c = k * d1;
            for y in [prev_prime(c), next_prime(c)] {
                t.insert(y);
            }
            // edges of the band of giant step k: k*d1 +- b for the extreme baby steps
            let half = d1 / 2;
            for y in [prev_prime(c + half + 1), next_prime(c + half), next_prime(c.saturating_sub(half + 2).max(2)), prev_prime(c.saturating_sub(half).max(4))] {
                t.insert(y);
            }
        }
    }
    if d1 > 0 {
        // primes of the form k*d1 +- 1 (the first baby step) for the smallest and largest such k
        let cand: Vec<u64> = (1..=d2 + 1).flat_map(|k| [k * d1 - 1, k * d1 + 1]).filter(|&y| is_prime_u64(y)).collect();
        for &y in cand.iter().take(2).chain(cand.iter().rev().take(2)) {
            t.insert(y);
        }
    }
    for _ in 0..nrand {
        t.insert(next_prime(rng.gen_range(b1..b2eff)));
    }
    t.into_iter().filter(|&l| l > b1 && l <= b2eff).collect()
}

/// maximal prime powers r^e < b1
fn max_powers(b1: u64) -> Vec<u64> {
    let mut v = vec![];
    for r in [2u64, 3, 5, 7, 11, 13] {
        if r >= b1 {
            break;
        }
        let mut x = r;
        while x * r < b1 {
            x *= r;
        }
        v.push(x);
    }
    v
}

struct PInst {
    p: u64,
    s: u64,
    sfac: Vec<(u64, u32)>,
}

/// prime p = s*l + sign with s a product of prime powers below b1 (trying to include a maximal one);
/// p < 2^31 (certified by trial division in the spec) or, for sign = +1, s < l (Pocklington with l)
fn find_p(l: u64, b1: u64, sign: i64, salt: usize) -> Option<PInst> {
    let mp = max_powers(b1);
    let mut bases: Vec<u64> = vec![];
    for i in 0..mp.len() {
        bases.push(mp[(i + salt) % mp.len()]);
    }
    bases.push(1);
    for base in bases {
        for t in 1..4000u64 {
            let s = base * t;
            if s % 2 == 1 {
                continue;
            }
            let big = s.checked_mul(l)?;
            let p = (big as i64 + sign) as u64;
            let fits = p < (1 << 31) || (sign == 1 && s < l && p < (1 << 50));
            if !fits {
                break;
            }
            if p < 1000 || p % 3 == 0 {
                continue;
            }
            if let Some(sfac) = smooth_below(s, b1) {
                if is_prime_u64(p) {
                    return Some(PInst { p, s, sfac });
                }
            }
        }
    }
    None
}

fn pchain(p: u64, l: u64) -> Value {
    if p < (1 << 31) {
        json!([{"ps": p, "p": du(p)}])
    } else {
        // Pocklington with q = l: l | p - 1, l^2 > p
        for a in 2u64..200 {
            if pw(a, p - 1, p) == 1 && gcd64((pw(a, (p - 1) / l, p) + p - 1) % p, p) == 1 {
                return json!([{"ps": l, "p": du(l)}, {"p": du(p), "q": du(l), "a": a}]);
            }
        }
        json!([])
    }
}

/// q prime < 2^31 with f | ord_q(2), f prime >= fmin
fn find_q_pm1(rng: &mut StdRng, fmin: u64) -> (u64, u64) {
    loop {
        let f = next_prime(fmin + rng.gen_range(0..fmin / 4));
        for j in 1..200u64 {
            let q = 2 * j * f + 1;
            if q >= (1 << 31) {
                break;
            }
            if q % 3 != 0 && is_prime_u64(q) && pw(2, (q - 1) / f, q) != 1 {
                return (q, f);
            }
        }
    }
}
/// q prime < 2^31 such that the P+1 group element of `seed` has order divisible by the prime f >= fmin;
/// returns (q, f, sign) with N = q + sign the order of the group containing it
fn find_q_pp1(rng: &mut StdRng, seed: u64, fmin: u64) -> (u64, u64, i64) {
    loop {
        let f = next_prime(fmin + rng.gen_range(0..fmin / 4));
        for j in 1..200u64 {
            for sign in [1i64, -1] {
                let q = (2 * j * f) as i64 - sign;
                if q <= 5 || q >= (1 << 31) {
                    continue;
                }
                let q = q as u64;
                if q % 3 == 0 || !is_prime_u64(q) {
                    continue;
                }
                let disc = (seed * seed - 4) % q;
                let e = euler(disc, q);
                let want = if sign == 1 { q - 1 } else { 1 };
                if e != want {
                    continue;
                }
                let nn = (q as i64 + sign) as u64;
                if lucas_v(seed, nn, q) == 2 && lucas_v(seed, nn / f, q) != 2 {
                    return (q, f, sign);
                }
            }
        }
    }
}

struct EcmQ {
    q: u64,
    f: u64,
    c: u64,
}
/// q prime < 2^31 with [c f]G = O and [c]G != O modulo q on the Suyama curve of `seed`
fn find_q_ecm(rng: &mut StdRng, seed: u32, fmin: u64) -> Option<EcmQ> {
    for _ in 0..40 {
        let f = next_prime(fmin + rng.gen_range(0..fmin / 4));
        for c in [12u64, 24, 36, 48, 60, 72] {
            let m = c * f;
            if m >= (1 << 31) - (1 << 17) {
                break;
            }
            let w = 2 * (m as f64).sqrt() as u64 + 2;
            let mut q = m - w;
            while q <= m + w {
                q = next_prime(q);
                if q > m + w || q >= (1 << 31) {
                    break;
                }
                if let Some((d, g)) = small_curve(q, seed) {
                    if ed_is_id(&ed_mul(d, q, m, &g)) && ed_clean_nonid(&ed_mul(d, q, c, &g)) {
                        return Some(EcmQ { q, f, c });
                    }
                }
            }
        }
    }
    None
}

struct EcmP {
    p: u64,
    seed: u32,
    c: u64,
    cfac: Vec<(u64, u32)>,
}
/// (seed, prime p) with [c l]G = O and [c]G != O modulo p, c a product of prime powers below b1
fn find_p_ecm(l: u64, b1: u64, seeds: &[u32], salt: usize) -> Option<EcmP> {
    // smooth cofactors: multiples of 12 (the family's torsion), preferring ones with a maximal prime power
    let mut cs: Vec<(u64, Vec<(u64, u32)>)> = vec![];
    let lim = ((1u64 << 31) / l).min(60_000);
    let mut c = 12;
    while c <= lim {
        if let Some(f) = smooth_below(c, b1) {
            cs.push((c, f));
        }
        c += 12;
    }
    let mp = max_powers(b1);
    cs.sort_by_key(|(c, _)| (!mp.iter().any(|m| c % m == 0), *c));
    let mut tried = 0;
    for (c, cfac) in cs.iter().skip(salt % 3) {
        let m = c * l;
        if m < 2000 {
            continue;
        }
        let w = 2 * (m as f64).sqrt() as u64 + 2;
        let mut p = m - w;
        while p <= m + w {
            p = next_prime(p);
            if p > m + w {
                break;
            }
            if p % 3 == 0 {
                continue;
            }
            for &seed in seeds {
                tried += 1;
                if let Some((d, g)) = small_curve(p, seed) {
                    if ed_is_id(&ed_mul(d, p, m, &g)) && ed_clean_nonid(&ed_mul(d, p, *c, &g)) {
                        return Some(EcmP { p, seed, c: *c, cfac: cfac.clone() });
                    }
                }
            }
        }
        if tried > 400_000 {
            break;
        }
    }
    None
}

fn jfac(f: &[(u64, u32)]) -> Value {
    Value::from(f.iter().map(|&(r, e)| json!([r, e])).collect::<Vec<_>>())
}

fn merge(mut base: Value, extra: &Value) -> Value {
    if let (Some(b), Some(e)) = (base.as_object_mut(), extra.as_object()) {
        for (k, v) in e {
            b.insert(k.clone(), v.clone());
        }
    }
    base
}

/// strategy pairs hard-wired in the code (inputs to try, not an oracle): (method, B1, B2 requested)
fn hardwired() -> Vec<(&'static str, u64, f64)> {
    vec![
        ("ecm", 200, 7.7e3), ("ecm", 600, 20e3), ("ecm", 2000, 80e3), ("ecm", 2000, 81e3), ("ecm", 2500, 126e3),
        ("ecm", 10000, 554e3), ("ecm", 25000, 1.37e6),
        ("ecm128", 16, 660.), ("ecm128", 40, 1080.), ("ecm128", 50, 1920.), ("ecm128", 60, 1920.), ("ecm128", 100, 3e3),
        ("ecm128", 180, 7.7e3), ("ecm128", 350, 13.2e3), ("ecm128", 600, 20e3), ("ecm128", 1000, 53e3), ("ecm128", 1500, 81e3),
        ("ecm128", 3600, 181e3), ("ecm128", 10000, 554e3),
        ("pm1", 600, 40e3), ("pm1", 10000, 270e3), ("pm1", 16384, 450e3),
    ]
}

fn maxpf(x: u64) -> u64 {
    factor_small(x).iter().map(|f| f.0).max().unwrap_or(1)
}

pub fn run(args: &Args) -> i32 {
    let seed = arg_u64(args, "seed", 1);
    let thorough = arg_str(args, "tier", "quick") == "thorough";
    let mut out = Out::create(arg_str(args, "out", "trace.ndjson"));
    let mut rng = rng_for(seed, "c16");
    let maxb2: u64 = if thorough { 1_400_000 } else { 100_000 };
    let inst_maxb2: u64 = arg_u64(args, "instmax", if thorough { 1_400_000 } else { 34_000 });
    let only: Option<&str> = args.get("only").map(|s| s.as_str());

    // ---- tables
    let prow = params_rows(maxb2);
    // the chirp-z path of P-1 starts above 8e4: its rows up to 1e6 are driven in quick as well (the row whose
    // reported bound is closest to what the grid covers, (978e3, 510, 2048), is among them)
    let mrow = pm1_rows(maxb2.max(1_000_000));
    let thr = pollard_pm1::vhook::multieval_threshold();
    for r in &prow {
        out.ev(json!({"op": "row", "case": format!("params/{}", r.b2), "table": "params", "b2": r.b2, "d1": r.d1, "d2": r.d2}));
    }
    for r in &mrow {
        out.ev(json!({"op": "row", "case": format!("pm1/{}", r.b2), "table": "pm1", "b2": r.b2, "d1": r.d1, "d2": r.d2,
                      "poly": r.b2 as f64 > thr}));
    }

    // ---- (method, B1, B2 requested) configurations: every row with a default B1, plus the hard-wired pairs
    let mut cfgs: Vec<(String, u64, f64)> = vec![];
    for r in &prow {
        let b1 = maxpf(r.d1).max(16) + 14; // >= largest prime factor of d1 (see assumptions), small enough for p < 2^31
        for m in ["ecm", "ecm128", "pp1"] {
            cfgs.push((m.to_string(), b1, r.b2 as f64));
        }
    }
    for r in &mrow {
        if (r.b2 as f64) > thr {
            cfgs.push(("pm1".to_string(), 30, r.b2 as f64));
        }
    }
    // the prime walk of P-1 (requested B2 at most the threshold): small, mid, the largest walked
    for b2 in [700.0, 5000.0, 40e3, 80e3] {
        if b2 <= maxb2 as f64 {
            cfgs.push(("pm1".to_string(), 30, b2));
        }
    }
    // B1 one above a maximal prime power (q^k + 1: 7^2, 3^4, 2^7, 11^2): the prime-power loops of the stage 1 of
    // each method ("while pow * p < B1") decide by a single unit there
    for b1 in [50u64, 82, 129, 122] {
        for m in ["pp1", "pm1", "ecm", "ecm128"] {
            cfgs.push((m.to_string(), b1, 660.0));
        }
    }
    for (m, b1, b2) in hardwired() {
        if b2 <= maxb2 as f64 {
            cfgs.push((m.to_string(), b1, b2));
        }
    }
    cfgs.dedup();
    if let Some(o) = only {
        cfgs.retain(|c| c.0 == o);
    }

    // a modulus on which none of the methods finds anything: product of two 61-bit safe primes p = 2p'+1
    // whose p+1 also has a prime factor above 2^40 (search side only; if a run finds something anyway it
    // is repeated with another seed below)
    let strong = |rng: &mut StdRng| -> u64 {
        loop {
            let h = (rand_bits(rng, 60).digits()[0] | 1) as u64;
            let p = 2 * h + 1;
            if p % 3 == 0 || !is_prime_u64(h) || !is_prime_u64(p) {
                continue;
            }
            let mut c = p + 1;
            for d in 2..65536u64 {
                while c % d == 0 {
                    c /= d;
                }
            }
            if c > (1 << 40) && is_prime_u64(c) {
                return p;
            }
        }
    };
    let nbig = Uint::from(strong(&mut rng)) * Uint::from(strong(&mut rng));
    let fmin_big: u64 = 1 << 23;
    let (q_pm1, f_pm1) = find_q_pm1(&mut rng, fmin_big);
    let mut q_pp1: BTreeMap<u64, (u64, u64, i64)> = BTreeMap::new();
    let mut q_ecm: BTreeMap<u32, Option<(u64, u64, u64)>> = BTreeMap::new();
    let seeds: Vec<u32> = (2..14).collect();

    for (ci, (m, b1, b2)) in cfgs.iter().enumerate() {
        let (b1, b2) = (*b1, *b2);
        let cname = format!("{}/{}/{}", m, b1, b2 as u64);
        let mk = |seed: u64| -> Method {
            match m.as_str() {
                "pm1" => Method::Pm1 { b1, b2 },
                "pp1" => Method::Pp1 { seed, b1, b2 },
                "ecm" => Method::Ecm { seed: seed as u32, b1, b2 },
                _ => Method::Ecm128 { seed: seed as u32, b1, b2 },
            }
        };
        // ---- grid of a real run (nothing to find: stage 2 is reached)
        let mut tries = 0u64;
        let grid = loop {
            let g = run_method(&nbig, &mk(if m == "pp1" { 6 + tries } else { 2 + ((ci as u64 + tries) % 11) }));
            match grid_of(&g.hooks, m) {
                Some(gr) => break Some(gr),
                None if tries < 6 && g.res.get("outcome").is_none() => tries += 1,
                None => {
                    // stage 2 never reached (or the run crashed): reported, judged by the specification
                    out.ev(merge(json!({"op": "grid", "case": cname, "m": m, "b1": b1, "nogrid": true}), &g.res));
                    break None;
                }
            }
        };
        let Some(grid) = grid else { continue };
        out.ev(merge(json!({"op": "grid", "case": cname, "m": m, "b1": b1, "nd": nbig.to_string()}), &grid));
        let b2rep = grid["b2rep"].as_u64().unwrap();
        let b2eff = if m == "pm1" { b2rep.min(b2 as u64) } else { b2rep };
        if b2eff > inst_maxb2 && !(m == "pm1" && b2eff <= 1_000_000) {
            continue;
        }
        let (d1, d2) = (grid["d1"].as_u64().unwrap_or(0), grid["d2"].as_u64().unwrap_or(0));
        // the certified prime factor of q's group order must exceed everything the grid can reach
        let reach = (4 * d1 * (d2 + 2)).max(4 * b2rep).max(4 * b2 as u64).max(b1);
        assert!(fmin_big > reach, "f bound too small for {}", cname);
        // ---- instances
        let nrand = if thorough { 6 } else { 3 };
        let ls = targets(&mut rng, b1, b2eff, d1, d2, nrand);
        for (li, &l) in ls.iter().enumerate() {
            let icase = format!("{}/l{}", cname, l);
            let base = json!({"op": "inst", "case": icase, "m": m, "b1": b1, "b2": b2 as u64, "b2rep": b2rep, "d1": d1, "d2": d2, "l": l});
            match m.as_str() {
                "pm1" => {
                    let Some(pi) = find_p(l, b1, 1, li) else { continue };
                    let n = Uint::from(pi.p) * Uint::from(q_pm1);
                    let r = run_method(&n, &mk(0));
                    out.ev(merge(merge(base, &json!({"n": dn(&n), "nd": n.to_string(), "p": du(pi.p), "pd": pi.p, "q": q_pm1, "s": du(pi.s), "sfac": jfac(&pi.sfac),
                        "pchain": pchain(pi.p, l), "f": f_pm1})), &r.res));
                }
                "pp1" => {
                    let Some(pi) = find_p(l, b1, -1, li) else { continue };
                    let Some(sd) = (3u64..40).find(|&s| euler((s * s - 4) % pi.p, pi.p) == pi.p - 1) else { continue };
                    let (q, f, sign) = *q_pp1.entry(sd).or_insert_with(|| find_q_pp1(&mut rng, sd, fmin_big));
                    let n = Uint::from(pi.p) * Uint::from(q);
                    let r = run_method(&n, &mk(sd));
                    out.ev(merge(merge(base, &json!({"n": dn(&n), "nd": n.to_string(), "p": du(pi.p), "pd": pi.p, "q": q, "s": du(pi.s), "sfac": jfac(&pi.sfac),
                        "pchain": pchain(pi.p, l), "f": f, "seed": sd, "qsign": sign})), &r.res));
                }
                _ => {
                    // rotate the seed list so that different curves are used
                    let mut sds = seeds.clone();
                    sds.rotate_left(li % seeds.len());
                    let Some(pi) = find_p_ecm(l, b1, &sds[..6], li) else { continue };
                    let qe = q_ecm.entry(pi.seed).or_insert_with(|| find_q_ecm(&mut rng, pi.seed, fmin_big).map(|e| (e.q, e.f, e.c)));
                    let Some((q, f, qc)) = *qe else { continue };
                    if q == pi.p {
                        continue;
                    }
                    let n = Uint::from(pi.p) * Uint::from(q);
                    // the curve over n must reduce cleanly: re-check both certificates on its reduction
                    let Some((_, _, d, g)) = suyama_curve(&n, pi.seed) else { continue };
                    let red = |x: &Uint, md: u64| (*x % Uint::from(md)).digits()[0];
                    let (gp, gq) = ((red(&g.0, pi.p), red(&g.1, pi.p), red(&g.2, pi.p)), (red(&g.0, q), red(&g.1, q), red(&g.2, q)));
                    let (dp, dq) = (red(&d, pi.p), red(&d, q));
                    if !(ed_is_id(&ed_mul(dp, pi.p, pi.c * l, &gp)) && ed_is_id(&ed_mul(dq, q, qc * f, &gq)) && ed_clean_nonid(&ed_mul(dq, q, qc, &gq))) {
                        continue;
                    }
                    let r = run_method(&n, &mk(pi.seed as u64));
                    if r.res.get("skip").is_some() {
                        continue;
                    }
                    out.ev(merge(merge(merge(base, &json!({"n": dn(&n), "nd": n.to_string(), "p": du(pi.p), "pd": pi.p, "q": q, "s": du(pi.c), "sfac": jfac(&pi.cfac),
                        "pchain": pchain(pi.p, l), "f": f, "qc": qc, "seed": pi.seed})), r.curve.as_ref().unwrap()), &r.res));
                }
            }
        }
    }

    // ---- PM1Base (64-bit two-stage variant): B1 = 1024 over primes below 500, walk over the large primes
    if only.is_none() || only == Some("pm1b") {
        for &budget in if thorough { &[1024usize, 1100, 2000, 5000, 20000, 40000, 66000][..] } else { &[1024usize, 1100, 2000, 20000][..] } {
            let cname = format!("pm1b/{}", budget);
            let n0 = 2147483659u64 * 2147483693u64; // nothing to find
            let g = run_method(&Uint::from(n0), &Method::Pm1Base { budget });
            let Some(grid) = grid_of(&g.hooks, "pm1b") else { continue };
            out.ev(merge(json!({"op": "grid", "case": cname, "m": "pm1b", "b1": 1024}), &grid));
            let (first, last) = (grid["first"].as_u64().unwrap(), grid["last"].as_u64().unwrap());
            let mut ls: BTreeSet<u64> = BTreeSet::new();
            ls.insert(first);
            ls.insert(last);
            if last > first {
                ls.insert(next_prime(first));
                ls.insert(prev_prime(last));
                for _ in 0..4 {
                    ls.insert(next_prime(rng.gen_range(first..last)).min(last));
                }
            }
            for (li, &l) in ls.iter().enumerate() {
                // prime powers below 1024 of primes below 500
                let Some(pi) = (0..6).filter_map(|k| find_p(l, 500, 1, li + k)).find(|pi| pi.p < (1 << 31)) else { continue };
                let n = Uint::from(pi.p) * Uint::from(q_pm1);
                let r = run_method(&n, &Method::Pm1Base { budget });
                // the walk depends on the budget only: the last prime visited is the one logged by the grid run
                let lastrun = json!(last);
                out.ev(merge(json!({"op": "inst", "case": format!("{}/l{}", cname, l), "m": "pm1b", "b1": 500, "b2": last, "b2rep": last, "d1": 0, "d2": 0, "l": l,
                    "n": dn(&n), "nd": n.to_string(), "p": du(pi.p), "pd": pi.p, "q": q_pm1, "s": du(pi.s), "sfac": jfac(&pi.sfac), "pchain": pchain(pi.p, l),
                    "f": f_pm1, "budget": budget, "lastrun": lastrun}), &r.res));
            }
        }
    }

    // ---- splits returned by rho and gcd_factors
    if only.is_none() || only == Some("split") {
        let nsplit = if thorough { 400 } else { 120 };
        for i in 0..nsplit {
            let bits = 8 + (i % 25) as u32; // primes of 8..32 bits
            let rp = |rng: &mut StdRng, b: u32| loop {
                let c = rand_bits(rng, b).digits()[0] | 1;
                if is_prime_u64(c) {
                    return c;
                }
            };
            let p = rp(&mut rng, bits);
            let q = if i % 11 == 0 { p } else { rp(&mut rng, (bits + (i / 25) as u32 % 4).min(32)) };
            let n = p * q;
            let c = 1 + (i as u64 % 3);
            let iters = [128u64, 512, 2048, 8192, 131072][i % 5];
            let r = guard_deadline(300.0, move || parts_value(pollard_rho::rho64(n, c, iters).map(|(a, b)| vec![Uint::from(a), Uint::from(b)])));
            out.ev(merge(json!({"op": "split", "case": format!("rho64/{}/{}/{}", n, c, iters), "via": "rho64", "n": du(n), "nd": n.to_string()}), &r.unwrap_or_else(|e| e)));
            if i % 3 == 0 {
                let nn = Uint::from(n);
                let r = guard_deadline(300.0, move || {
                    parts_value(pollard_rho::rho(&nn, Verbosity::Silent).map(|(mut f, r)| {
                        f.push(r);
                        f
                    }))
                });
                out.ev(merge(json!({"op": "split", "case": format!("rho/{}", n), "via": "rho", "n": du(n), "nd": n.to_string()}), &r.unwrap_or_else(|e| e)));
            }
            if i % 4 == 0 {
                // multiprecision variant on a three-prime number
                let r3 = rp(&mut rng, 20);
                let nn = Uint::from(n) * Uint::from(r3);
                let r = guard_deadline(300.0, move || {
                    parts_value(pollard_rho::rho_impl(&nn, 2, 4000, Verbosity::Silent).map(|(mut f, r)| {
                        f.push(r);
                        f
                    }))
                });
                out.ev(merge(json!({"op": "split", "case": format!("rho_impl/{}", nn), "via": "rho_impl", "n": dn(&nn), "nd": nn.to_string()}), &r.unwrap_or_else(|e| e)));
            }
        }
        // batches of semiprimes of 30..44 bits through rho() and rho64(): the corner where both cycles close within the
        // same block of steps (the accumulated product is 0 modulo n) shows on a fraction of a percent of them
        {
            let per = 250usize;
            let nbatch = if thorough { 48 } else { 16 };
            for bi in 0..nbatch {
                let via = if bi % 2 == 0 { "rho" } else { "rho64" };
                let mut ns: Vec<u64> = vec![];
                for j in 0..per {
                    let bits = 30 + ((bi / 2 + j) % 15) as u32;
                    let rp = |rng: &mut StdRng, b: u32| loop {
                        let c = rand_bits(rng, b).digits()[0] | 1;
                        if is_prime_u64(c) {
                            return c;
                        }
                    };
                    let p = rp(&mut rng, bits / 2);
                    let q = rp(&mut rng, bits - bits / 2);
                    if p != q {
                        ns.push(p * q);
                    }
                }
                let ns2 = ns.clone();
                let r = guard_deadline(600.0, move || {
                    ns2.iter()
                        .map(|&n| {
                            let r: Option<Vec<Uint>> = if via == "rho" {
                                pollard_rho::rho(&Uint::from(n), Verbosity::Silent).map(|(mut f, r)| {
                                    f.push(r);
                                    f
                                })
                            } else {
                                pollard_rho::rho64(n, 1 + n % 3, 131072).map(|(a, b)| vec![Uint::from(a), Uint::from(b)])
                            };
                            match r {
                                None => json!({"some": false, "parts": []}),
                                Some(v) => json!({"some": true, "parts": v.iter().map(dn).collect::<Vec<_>>()}),
                            }
                        })
                        .collect::<Vec<Value>>()
                });
                let base = json!({"op": "splits", "case": format!("{}-batch/{}", via, bi), "via": via,
                                  "ns": ns.iter().map(|&n| du(n)).collect::<Vec<_>>(), "nsd": ns.iter().map(|n| n.to_string()).collect::<Vec<_>>()});
                out.ev(match r {
                    Ok(rs) => merge(base, &json!({"rs": rs})),
                    Err(e) => merge(base, &e),
                });
            }
        }
        // gcd_factors on cumulative products in which chosen primes enter at chosen positions
        // deterministic family first: two primes entering at consecutive positions (i, i+1) of every short length
        let mut consecutive: Vec<(usize, i64)> = vec![];
        for len in [3usize, 4, 5, 8, 9, 16, 17] {
            for a in 0..len as i64 - 1 {
                consecutive.push((len, a));
            }
        }
        let nrand = if thorough { 200 } else { 60 };
        for i in 0..(nrand + consecutive.len()) {
            let forced = if i >= nrand { Some(consecutive[i - nrand]) } else { None };
            let np = if forced.is_some() { 2 } else { 2 + i % 3 };
            let mut ps: Vec<Uint> = vec![];
            while ps.len() < np {
                let b = [16u32, 31, 40, 61][rng.gen_range(0..4)];
                let c = rand_bits(&mut rng, b).digits()[0] | 1;
                if is_prime_u64(c) && !ps.contains(&Uint::from(c)) {
                    ps.push(Uint::from(c));
                }
            }
            let n = ps.iter().fold(Uint::ONE, |a, b| a * *b);
            let len = match forced { Some((l, _)) => l, None => [1usize, 2, 3, 5, 8, 17, 64][i % 7] };
            // position at which each prime enters (same position for two primes in some cases; -1: never)
            let pos: Vec<i64> = match forced {
                Some((_, a)) => vec![a, a + 1],
                None => (0..np).map(|j| if i % 5 == 4 && j == 1 { -1 } else if i % 4 == 3 && j > 0 { 0i64.max(len as i64 / 2) } else { rng.gen_range(0..len as i64) }).collect(),
            };
            let zn = ZmodN::new(n);
            let mut vals: Vec<MInt> = vec![];
            let mut acc = Uint::ONE;
            for t in 0..len {
                let mut x = crate::gen::rand_below(&mut rng, &n);
                // keep x coprime to n, then multiply in the primes entering here
                while !crate::gen::gcd(&x, &n).is_one() {
                    x = crate::gen::rand_below(&mut rng, &n);
                }
                for (j, p) in ps.iter().enumerate() {
                    if pos[j] == t as i64 {
                        x = crate::gen::mulmod(&x, p, &n);
                    }
                }
                acc = crate::gen::mulmod(&acc, &x, &n);
                vals.push(zn.from_int(acc));
            }
            let nn = n;
            let v2 = vals.clone();
            let r = guard_deadline(300.0, move || {
                let (f, r) = gcd_factors(&nn, &v2);
                let mut v = f.clone();
                v.push(r);
                let mut o = parts_value(Some(v));
                o["nfac"] = json!(f.len());
                o
            });
            let plain: Vec<Value> = vals.iter().map(|v| dn(&zn.to_int(*v))).collect();
            out.ev(merge(json!({"op": "split", "case": format!("gcdf/{}", i), "via": "gcd_factors", "n": dn(&n), "nd": n.to_string(),
                "first": plain[0], "last": plain[plain.len() - 1], "len": len,
                "primes": ps.iter().map(dn).collect::<Vec<_>>(), "pos": pos}), &r.unwrap_or_else(|e| e)));
        }
    }

    // ---- exponentiation helpers against their definitions
    if only.is_none() || only == Some("exp") {
        let mods = [Uint::from(18446744073709551557u64), (Uint::ONE << 127) - Uint::ONE, Uint::from(1000003u64 * 998244353u64)];
        let exps: Vec<u64> = vec![0, 1, 2, 3, 4, 7, 8, 9, 63, 64, 255, 1 << 32, (1 << 61) - 1, 1 << 61, 1 << 62, 1 << 63, (1 << 63) + 1, u64::MAX, u64::MAX - 1,
            0x8000_0000_0000_0003, 0xe000_0000_0000_0000, 0xa000_0000_0000_0001, rng.gen(), rng.gen::<u64>() >> 7, rng.gen::<u64>() >> 33];
        for (i, &e) in exps.iter().enumerate() {
            let n = mods[i % mods.len()];
            let zn = ZmodN::new(n);
            let g = crate::gen::rand_below(&mut rng, &n);
            let gm = zn.from_int(g);
            let r = guard(|| json!({"r": dn(&zn.to_int(pollard_pm1::vhook::exp_modn(&zn, &gm, e)))}));
            out.ev(merge(json!({"op": "expmod", "case": format!("exp_modn/{}", e), "via": "exp_modn", "n": dn(&n), "g": dn(&g), "e": du(e)}), &r.unwrap_or_else(|e| e)));
            if e == 0 {
                continue; // never called with 0 (returns the ring's one, not V_0 = 2): outside the helper's domain
            }
            let r = guard(|| json!({"r": dn(&zn.to_int(pp1::vhook::chebyshev_modn(&zn, &gm, e)))}));
            out.ev(merge(json!({"op": "cheb", "case": format!("cheb/{}", e), "n": dn(&n), "g": dn(&g), "e": du(e)}), &r.unwrap_or_else(|e| e)));
        }
        let one = Uint::ONE;
        let mut big: Vec<Uint> = vec![Uint::ZERO, one, Uint::from(5u64), one << 64, (one << 64) + one, (one << 65) - one, (one << 70) | Uint::from(63u64),
            Uint::MAX, Uint::MAX - Uint::from(62u64), one << 1023, (one << 1023) | (one << 5), (one << 960) - one];
        for _ in 0..(if thorough { 12 } else { 4 }) {
            let b = rng.gen_range(65..=1024);
            big.push(rand_bits(&mut rng, b));
        }
        for (i, e) in big.iter().enumerate() {
            let n = mods[i % mods.len()];
            let zn = ZmodN::new(n);
            let g = crate::gen::rand_below(&mut rng, &n);
            let gm = zn.from_int(g);
            let r = guard(|| json!({"r": dn(&zn.to_int(pollard_pm1::vhook::exp_modn_large(&zn, &gm, e)))}));
            out.ev(merge(json!({"op": "expmod", "case": format!("exp_modn_large/{}", i), "via": "exp_modn_large", "n": dn(&n), "g": dn(&g), "e": dn(e)}), &r.unwrap_or_else(|e| e)));
        }
    }
    let n = out.finish();
    println!("{}", json!({"events": n}));
    0
}
