//! C04 driver: factor() with thread pools of every size under perturbed schedules.
//!
//! One trace line per run (`op:"run"`): the hook events of the run in compact integer form
//! (`evs`, see `compact`), the value returned, and what the run was (input, selector, threads,
//! perturbation).  Runs of the same input form one group (`case` = input id) that starts with an
//! `op:"input"` line carrying the certified prime factors of the input, followed by the
//! single-threaded baseline runs.  Nothing is judged here: SieveProtoTrace.tla decides.
//!
//! Also hosts the machinery shared with the C05 driver (guarded call with a progress watchdog,
//! event compaction, input generation).

use std::collections::HashMap;
use std::sync::atomic::{AtomicBool, AtomicU64, AtomicUsize, Ordering};
use std::sync::{mpsc, Arc, Mutex};
use std::time::{Duration, Instant};

use rand::rngs::StdRng;
use rand::{Rng, SeedableRng};
use serde_json::{json, Value};

use yamaquasi::{factor, Algo, Preferences, Verbosity};

use crate::gen::{rand_bits, rng_for, Pool, Uint};
use crate::trace::*;

// ------------------------------------------------------------------------------------------
// shared: panics of any thread, guarded call with a watchdog on absence of progress
// ------------------------------------------------------------------------------------------

static PANICS: Mutex<Vec<(String, String)>> = Mutex::new(Vec::new());
/// incremented at every sched point and every abort poll: "the run is making progress"
pub static PROGRESS: AtomicU64 = AtomicU64::new(0);

/// Panic hook that records message and location of panics of *all* threads (rayon re-raises a
/// worker's panic in the caller without calling the hook again, so a thread-local is not enough).
pub fn install_global_panic_hook() {
    std::panic::set_hook(Box::new(|info| {
        let msg = if let Some(s) = info.payload().downcast_ref::<&str>() {
            s.to_string()
        } else if let Some(s) = info.payload().downcast_ref::<String>() {
            s.clone()
        } else {
            "?".to_string()
        };
        let loc = info.location().map(|l| format!("{}:{}", l.file(), l.line())).unwrap_or_default();
        PANICS.lock().unwrap_or_else(|e| e.into_inner()).push((msg, loc));
    }));
}

fn take_panic() -> Value {
    let mut g = PANICS.lock().unwrap_or_else(|e| e.into_inner());
    let (mut msg, loc) = if g.is_empty() { Default::default() } else { g[0].clone() };
    let count = g.len();
    g.clear();
    msg.truncate(200);
    let loc = match loc.find("src/") {
        Some(i) => loc[i..].to_string(),
        None => loc,
    };
    json!({"outcome": "panic", "msg": msg, "loc": loc, "panics": count})
}

pub enum Outcome {
    List(Vec<Uint>),
    Failure,
    Bad(Value), // panic or hang
}

pub struct RunOut {
    pub outcome: Outcome,
    pub events: Vec<Value>,
    pub wall_ms: f64,
    pub hung: bool,
    pub raw_count: usize,
    pub raw: Vec<String>,
}

/// Runs factor(n, alg, prefs) in its own thread with the event sink on.  A panic is an outcome; so
/// is a hang, detected as *no progress event for `idle_s` seconds* (never on wall time alone).
/// op of a raw event line without parsing it
pub fn op_of(s: &str) -> &str {
    match s.find("\"op\":\"") {
        Some(i) => {
            let r = &s[i + 6..];
            &r[..r.find('"').unwrap_or(0)]
        }
        None => "",
    }
}

fn field_u(s: &str, key: &str) -> i64 {
    let pat = format!("\"{}\":", key);
    match s.find(&pat) {
        Some(i) => s[i + pat.len()..].chars().take_while(|c| c.is_ascii_digit()).collect::<String>().parse().unwrap_or(0),
        None => 0,
    }
}

/// Parses the raw event lines a driver cares about (`keep(op)`); the bulky rel_add events of the store
/// (whole relations) are reduced to tid / ph / cycles without a full JSON parse.
pub fn parse_events(raw: &[String], keep: &dyn Fn(&str) -> bool) -> Vec<Value> {
    let mut out = Vec::with_capacity(raw.len().min(1 << 20));
    for s in raw {
        let op = op_of(s);
        if !keep(op) {
            continue;
        }
        if op == "rel_add" {
            let exit = s.contains("\"ph\":\"exit\"");
            out.push(json!({"tid": field_u(s, "tid"), "op": "rel_add", "ph": if exit { "exit" } else { "enter" },
                            "cycles": if exit { field_u(s, "cycles") } else { 0 }}));
        } else if let Ok(v) = serde_json::from_str::<Value>(s) {
            out.push(v);
        }
    }
    out
}

pub fn run_factor(n: Uint, alg: Algo, mk_prefs: impl FnOnce() -> Preferences + Send + 'static, idle_s: f64,
                  keep: &dyn Fn(&str) -> bool) -> RunOut {
    PANICS.lock().unwrap_or_else(|e| e.into_inner()).clear();
    let (tx, rx) = mpsc::channel();
    yamaquasi::verif::start();
    let t0 = Instant::now();
    let h = std::thread::Builder::new()
        .stack_size(64 << 20)
        .spawn(move || {
            let prefs = mk_prefs();
            yamaquasi::verif::ev(|| format!("\"op\":\"call\""));
            let r = std::panic::catch_unwind(std::panic::AssertUnwindSafe(|| factor(n, alg, &prefs)));
            yamaquasi::verif::ev(|| format!("\"op\":\"returned\""));
            let _ = tx.send(r.map_err(|_| ()));
            drop(prefs);
        })
        .expect("spawn");
    let mut last = PROGRESS.load(Ordering::Relaxed);
    let mut last_t = Instant::now();
    let res = loop {
        match rx.recv_timeout(Duration::from_millis(200)) {
            Ok(r) => break Some(r),
            Err(mpsc::RecvTimeoutError::Timeout) => {
                let p = PROGRESS.load(Ordering::Relaxed);
                if p != last {
                    last = p;
                    last_t = Instant::now();
                } else if last_t.elapsed().as_secs_f64() > idle_s {
                    break None;
                }
            }
            Err(_) => break Some(Err(())),
        }
    };
    let wall_ms = t0.elapsed().as_secs_f64() * 1e3;
    let (outcome, hung) = match res {
        Some(Ok(Ok(l))) => {
            let _ = h.join();
            (Outcome::List(l), false)
        }
        Some(Ok(Err(_))) => {
            let _ = h.join();
            (Outcome::Failure, false)
        }
        Some(Err(())) => {
            let _ = h.join();
            (Outcome::Bad(take_panic()), false)
        }
        None => (Outcome::Bad(json!({"outcome": "timeout", "idle_s": idle_s})), true),
    };
    let raw = yamaquasi::verif::stop();
    yamaquasi::verif::set_sched(None);
    let raw_count = raw.len();
    let events = parse_events(&raw, keep);
    RunOut { outcome, events, wall_ms, hung, raw_count, raw }
}

pub fn outcome_fields(o: &Outcome) -> Value {
    match o {
        Outcome::List(l) => json!({"ret": "list", "list": l.iter().map(dn).collect::<Vec<_>>(),
                                   "list_dec": l.iter().map(|x| x.to_string()).collect::<Vec<_>>()}),
        Outcome::Failure => json!({"ret": "failure", "list": []}),
        Outcome::Bad(v) => {
            let mut v = v.clone();
            v["ret"] = json!("none");
            v["list"] = json!([]);
            v
        }
    }
}

pub fn algo_of(s: &str) -> Algo {
    match s {
        "Auto" => Algo::Auto,
        "Siqs" => Algo::Siqs,
        "Mpqs" => Algo::Mpqs,
        "Qs" => Algo::Qs,
        "Ecm" => Algo::Ecm,
        _ => panic!("selector {}", s),
    }
}

pub fn st_code(s: &str) -> i64 {
    match s {
        "siqs" => 1,
        "mpqs" => 2,
        "qs" => 3,
        "ecm" => 4,
        _ => 0,
    }
}

fn gi(e: &Value, k: &str) -> i64 {
    match &e[k] {
        Value::Bool(b) => *b as i64,
        v => v.as_i64().unwrap_or(0).min(2_000_000_000),
    }
}

/// Compact integer form of a hook event: [code, tid, a, b, c]; None for events of other builders.
///  1 stage(st, par, fb)  2 stage2(gap0, target0, tasks)  3 task(st)  4 task_skip(st, why 1 gap0 2 done_or_abort)
///  5 pre_poll(st, site 1 par 2 seq 3 final)  6 poll(idx, res)  7 unit_start(st)  8 unit_end(st)
///  9 unit_interrupt(st)  10 poly(st)  11 r_len(st, v, held)  12 r_gap(st, v, len)  13 st_gap(st, v)
/// 14 st_done(st)  15 st_target(st, v)  16 w_req(st)  17 w_rel(st)  18 rel_add(ph 0 enter 1 exit, cycles)
/// 19 join(st, gap, done)  20 final_len(st, len, fb)  21 finalize(gap, len, fb)  22 sieve_ret(st, why 1 abort 2 none)
/// 23 loop_exit(st, why)  24 fin_done(st)  25 half(st, dir)  26 call  27 returned  28 lib stage marker (fi_alg qs)
pub fn compact(e: &Value, out: &mut Vec<Value>) {
    let tid = gi(e, "tid");
    let st = st_code(e["st"].as_str().unwrap_or(""));
    let why = |e: &Value| match e["why"].as_str().unwrap_or("") {
        "gap0" => 1,
        "done_or_abort" => 2,
        "abort" => 1,
        "none" => 2,
        _ => 0,
    };
    let mut p = |c: i64, a: i64, b: i64, d: i64| out.push(json!([c, tid, a, b, d]));
    match e["op"].as_str().unwrap_or("") {
        "stage" => {
            p(1, st, gi(e, "par"), gi(e, "fb"));
            p(2, gi(e, "gap"), gi(e, "target"), gi(e, "tasks"));
        }
        "task" => p(3, st, 0, 0),
        "task_skip" => p(4, st, why(e), 0),
        "pre_poll" => p(5, st, match e["site"].as_str().unwrap_or("") { "par" => 1, "seq" => 2, _ => 3 }, 0),
        "poll" => p(6, gi(e, "idx"), gi(e, "res"), 0),
        "unit_start" => p(7, st, 0, 0),
        "unit_end" => p(8, st, 0, 0),
        "unit_interrupt" => p(9, st, 0, 0),
        "poly" => p(10, st, 0, 0),
        "r_len" => p(11, st, gi(e, "v"), gi(e, "held")),
        "r_gap" => p(12, st, gi(e, "v"), gi(e, "len")),
        "st_gap" => p(13, st, gi(e, "v"), 0),
        "st_done" => p(14, st, 0, 0),
        "st_target" => p(15, st, gi(e, "v"), 0),
        "w_req" => p(16, st, 0, 0),
        "w_rel" => p(17, st, 0, 0),
        "rel_add" => {
            let exit = e["ph"].as_str() == Some("exit");
            p(18, exit as i64, if exit { gi(e, "cycles") } else { 0 }, 0)
        }
        "join" => p(19, st, gi(e, "gap"), gi(e, "done")),
        "final_len" => p(20, st, gi(e, "len"), gi(e, "fb")),
        "finalize" => p(21, gi(e, "gap"), gi(e, "len"), gi(e, "fb")),
        "sieve_ret" => p(22, st, why(e), 0),
        "loop_exit" => p(23, st, why(e), 0),
        "fin_done" => p(24, st, 0, 0),
        "half" => p(25, st, (e["dir"].as_str() == Some("bck")) as i64, 0),
        "call" => p(26, 0, 0, 0),
        "returned" => p(27, 0, 0, 0),
        "fi_alg" if e["name"].as_str() == Some("qs") => p(28, 0, 0, 0),
        _ => {}
    }
}

/// tid of a raw event line ({"tid":N,...) without parsing it
fn tid_of(s: &str) -> i64 {
    s.get(7..).map(|r| r.bytes().take_while(|b| b.is_ascii_digit()).fold(0i64, |a, b| a * 10 + (b - b'0') as i64)).unwrap_or(0)
}

fn parse_one(s: &str) -> Option<Value> {
    let op = op_of(s);
    if op.starts_with("f_") || (op.starts_with("fi_") && op != "fi_alg") {
        return None;
    }
    if op == "rel_add" {
        let exit = s.contains("\"ph\":\"exit\"");
        return Some(json!({"tid": tid_of(s), "op": "rel_add", "ph": if exit { "exit" } else { "enter" },
                           "cycles": if exit { field_u(s, "cycles") } else { 0 }}));
    }
    serde_json::from_str::<Value>(s).ok()
}

/// Streaming compaction of a whole run (raw event lines, parsed only when kept).
///
/// (1) A pool worker that finds the sieve finished goes through "task, (pre_poll, fin_done,) task_skip" once
///     per remaining work item (MPQS: 100 000 blocks): after the first two such skip cycles of a thread the
///     following ones are only counted (entry 29: [29, tid, count]).  The events of a cycle are buffered until
///     it is known whether it skips or starts a unit, so a buffered cycle may appear later than it happened
///     relative to other threads (never reordered within its thread).
/// (2) An insertion "w_req, rel_add enter, rel_add exit, w_rel" of one thread with no event of any other
///     thread logged in between (the uncontended case) becomes one entry 30: [30, tid, cycles, count]
///     (consecutive ones of the same thread are merged, count = how many).  Contended insertions stay as the
///     four original entries, so overlaps remain visible.
pub fn compact_all(raw: &[String]) -> Vec<Value> {
    let mut out: Vec<Value> = vec![];
    let mut buf: HashMap<i64, Vec<&str>> = HashMap::new(); // tid -> buffered cycle (raw lines)
    let mut cycles: HashMap<i64, usize> = HashMap::new(); // tid -> consecutive skip cycles so far
    let mut dropped: HashMap<i64, i64> = HashMap::new();
    fn flush(lines: Vec<&str>, out: &mut Vec<Value>) {
        for l in lines {
            if let Some(v) = parse_one(l) {
                compact(&v, out);
            }
        }
    }
    for line in raw {
        let op = op_of(line);
        let tid = tid_of(line);
        match op {
            "task" => {
                if let Some(b) = buf.remove(&tid) {
                    flush(b, &mut out); // unfinished cycle (should not happen)
                }
                buf.insert(tid, vec![line.as_str()]);
            }
            "task_skip" => {
                let mut b = buf.remove(&tid).unwrap_or_default();
                b.push(line.as_str());
                let c = cycles.entry(tid).or_insert(0);
                *c += 1;
                if *c <= 2 {
                    flush(b, &mut out);
                } else {
                    *dropped.entry(tid).or_insert(0) += 1;
                }
            }
            "pre_poll" | "fin_done" | "poll" | "r_len" if buf.contains_key(&tid) => {
                buf.get_mut(&tid).unwrap().push(line.as_str());
            }
            _ => {
                if let Some(b) = buf.remove(&tid) {
                    flush(b, &mut out);
                    cycles.insert(tid, 0);
                }
                if let Some(v) = parse_one(line) {
                    compact(&v, &mut out);
                }
            }
        }
    }
    let mut rest: Vec<_> = buf.into_iter().collect();
    rest.sort_by_key(|x| x.0);
    for (_, b) in rest {
        flush(b, &mut out);
    }
    // (2) fold uncontended insertions
    let mut folded: Vec<Value> = Vec::with_capacity(out.len() / 2);
    let code = |v: &Value| v[0].as_i64().unwrap_or(0);
    let mut i = 0;
    while i < out.len() {
        if i + 3 < out.len() && code(&out[i]) == 16 {
            let t = out[i][1].as_i64();
            let (a, b, c) = (&out[i + 1], &out[i + 2], &out[i + 3]);
            if code(a) == 18 && a[2] == 0 && a[1].as_i64() == t && code(b) == 18 && b[2] == 1 && b[1].as_i64() == t
                && code(c) == 17 && c[1].as_i64() == t
            {
                let cyc = b[3].as_i64().unwrap_or(0);
                match folded.last_mut() {
                    Some(last) if code(last) == 30 && last[1].as_i64() == t => {
                        let n = last[3].as_i64().unwrap_or(0) + 1;
                        *last = json!([30, t, cyc, n, 0]);
                    }
                    _ => folded.push(json!([30, t, cyc, 1, 0])),
                }
                i += 4;
                continue;
            }
        }
        folded.push(out[i].clone());
        i += 1;
    }
    let mut d: Vec<_> = dropped.into_iter().collect();
    d.sort();
    for (tid, n) in d {
        folded.push(json!([29, tid, n.min(2_000_000_000), 0, 0]));
    }
    folded
}

/// An input: product of certified primes.
pub struct Input {
    pub id: String,
    pub n: Uint,
    pub primes: Vec<Uint>,
    pub chains: Vec<Value>,
}

pub fn make_input(pool: &mut Pool, id: &str, bits: &[u32]) -> Input {
    let mut primes: Vec<Uint> = vec![];
    for &b in bits {
        loop {
            // distinct primes above the trial division range, not 2 (mod 3)-special: any prime will do
            let p = pool.prime(b);
            if !primes.contains(&p) {
                primes.push(p);
                break;
            }
        }
    }
    primes.sort();
    let n = primes.iter().fold(Uint::ONE, |a, b| a * *b);
    let chains = primes.iter().map(|p| pool.chain_of(p).unwrap()).collect();
    Input { id: id.to_string(), n, primes, chains }
}

pub fn input_event(inp: &Input) -> Value {
    json!({"op": "input", "case": inp.id, "n": dn(&inp.n), "n_dec": inp.n.to_string(), "bits": inp.n.bits(),
           "primes": inp.primes.iter().map(dn).collect::<Vec<_>>(),
           "primes_dec": inp.primes.iter().map(|p| p.to_string()).collect::<Vec<_>>(),
           "chains": inp.chains})
}

// ------------------------------------------------------------------------------------------
// schedule perturbation (the set_sched callback)
// ------------------------------------------------------------------------------------------

/// What a perturbation does at sched points.
#[derive(Clone, Debug)]
pub struct Pert {
    pub kind: String, // none | rand | gapgate | wgate | taskgate
    pub seed: u64,
}

struct Gate {
    // generation counters bumped when a thread passes the given kind of point
    done_store: AtomicUsize,
    rlen: AtomicUsize,
    holds: AtomicUsize,
    holding: AtomicUsize,
}

fn thread_rng(seed: u64) -> StdRng {
    let t = yamaquasi::verif::tid() as u64;
    StdRng::seed_from_u64(seed.wrapping_mul(0x9e3779b97f4a7c15) ^ (t << 32) ^ 0x5bd1e995)
}

thread_local! {
    static TRNG: std::cell::RefCell<Option<(u64, StdRng)>> = std::cell::RefCell::new(None);
}

fn with_rng<T>(seed: u64, f: impl FnOnce(&mut StdRng) -> T) -> T {
    TRNG.with(|c| {
        let mut c = c.borrow_mut();
        if c.as_ref().map(|x| x.0) != Some(seed) {
            *c = Some((seed, thread_rng(seed)));
        }
        f(&mut c.as_mut().unwrap().1)
    })
}

fn wait_until(cond: impl Fn() -> bool, timeout: Duration) -> bool {
    let t0 = Instant::now();
    while !cond() {
        if t0.elapsed() > timeout {
            return false; // release on timeout: a gate never creates a hang
        }
        std::thread::sleep(Duration::from_micros(50));
    }
    true
}

/// Installs the scheduling callback of a perturbation.  Returns counters (gate hits) for the log.
pub fn install_pert(p: &Pert) -> Arc<[AtomicUsize; 3]> {
    let stats: Arc<[AtomicUsize; 3]> = Arc::new([AtomicUsize::new(0), AtomicUsize::new(0), AtomicUsize::new(0)]);
    let g = Arc::new(Gate { done_store: AtomicUsize::new(0), rlen: AtomicUsize::new(0), holds: AtomicUsize::new(0), holding: AtomicUsize::new(0) });
    let kind = p.kind.clone();
    let seed = p.seed;
    let st = stats.clone();
    let active = AtomicBool::new(true);
    yamaquasi::verif::set_sched(Some(Box::new(move |id: &'static str| {
        PROGRESS.fetch_add(1, Ordering::Relaxed);
        if !active.load(Ordering::Relaxed) {
            return;
        }
        // bookkeeping used by the gates
        if id.ends_with(".done.store") {
            g.done_store.fetch_add(1, Ordering::SeqCst);
        }
        if id.ends_with(".rlen.lock") {
            g.rlen.fetch_add(1, Ordering::SeqCst);
        }
        match kind.as_str() {
            "none" => {}
            "rand" => {
                let r: u32 = with_rng(seed, |r| r.gen_range(0..1000));
                // intensity depends on the seed so that some runs are lightly and some heavily perturbed
                let heavy = seed % 3 == 0;
                if r < 150 {
                    std::thread::yield_now();
                } else if r < (if heavy { 300 } else { 180 }) {
                    let us = with_rng(seed, |r| r.gen_range(1..200));
                    std::thread::sleep(Duration::from_micros(us));
                } else if r < (if heavy { 306 } else { 182 }) {
                    let us = with_rng(seed, |r| r.gen_range(500..3000));
                    std::thread::sleep(Duration::from_micros(us));
                }
            }
            // "hold the thread that just executed ReadGap (non-zero) until another thread executes StoreDone"
            "gapgate" => {
                // one thread at a time is held (the others must be free to reach gap = 0)
                if id == "siqs.gap.store.nz"
                    && g.holds.load(Ordering::SeqCst) < 6
                    && g.holding.compare_exchange(0, 1, Ordering::SeqCst, Ordering::SeqCst).is_ok()
                {
                    g.holds.fetch_add(1, Ordering::SeqCst);
                    let d0 = g.done_store.load(Ordering::SeqCst);
                    st[0].fetch_add(1, Ordering::Relaxed);
                    if wait_until(|| g.done_store.load(Ordering::SeqCst) > d0, Duration::from_millis(400)) {
                        st[1].fetch_add(1, Ordering::Relaxed);
                        // let the other thread really perform its store
                        std::thread::sleep(Duration::from_micros(500));
                    }
                    g.holding.store(0, Ordering::SeqCst);
                }
            }
            // "hold a writer between two inserts until k readers have passed"
            "wgate" => {
                if id.ends_with(".w.lock") {
                    let r: u32 = with_rng(seed, |r| r.gen_range(0..100));
                    if r < 10 && g.holds.fetch_add(1, Ordering::SeqCst) < 40 {
                        let r0 = g.rlen.load(Ordering::SeqCst);
                        let k = 1 + (seed % 3) as usize;
                        st[0].fetch_add(1, Ordering::Relaxed);
                        if wait_until(|| g.rlen.load(Ordering::SeqCst) >= r0 + k, Duration::from_millis(3)) {
                            st[1].fetch_add(1, Ordering::Relaxed);
                        }
                    }
                }
            }
            // hold a worker between its completion checks and the start of its unit until another
            // thread stores done (it then starts a unit although the sieve is over)
            "taskgate" => {
                if (id == "siqs.task.done" || id == "ecm.task.done" || id == "mpqs.target.load")
                    && g.holds.fetch_add(1, Ordering::SeqCst) < 4
                {
                    let d0 = g.done_store.load(Ordering::SeqCst);
                    st[0].fetch_add(1, Ordering::Relaxed);
                    if wait_until(|| g.done_store.load(Ordering::SeqCst) > d0, Duration::from_millis(100)) {
                        st[1].fetch_add(1, Ordering::Relaxed);
                    }
                }
            }
            _ => {}
        }
    })));
    stats
}

/// Abort predicate that never aborts but logs every poll (so that the per-thread program order of
/// the trace contains the polls) and counts as progress.
pub fn logging_never_abort(polls: Arc<AtomicUsize>) -> Box<dyn Fn() -> bool + Sync> {
    Box::new(move || {
        let idx = polls.fetch_add(1, Ordering::SeqCst);
        PROGRESS.fetch_add(1, Ordering::Relaxed);
        yamaquasi::verif::ev(|| format!("\"op\":\"poll\",\"idx\":{},\"res\":false", idx));
        false
    })
}

// ------------------------------------------------------------------------------------------
// the C04 plan
// ------------------------------------------------------------------------------------------

#[derive(Clone)]
struct Variant {
    key: &'static str, // part of the baseline key
    use_double: Option<bool>,
    large_factor: Option<u64>,
    fb_size: Option<u32>,
}

fn prefs_of(v: &Variant, threads: Option<usize>) -> Preferences {
    let mut p = Preferences::default();
    p.verbosity = Verbosity::Silent;
    p.threads = threads;
    p.use_double = v.use_double;
    p.large_factor = v.large_factor;
    p.fb_size = v.fb_size;
    p
}

pub fn run(args: &Args) -> i32 {
    install_global_panic_hook();
    let seed = arg_u64(args, "seed", 1);
    let tier = arg_str(args, "tier", "quick").to_string();
    let thorough = tier == "thorough";
    let shard = arg_u64(args, "shard", 0) as usize;
    let nshards = arg_u64(args, "nshards", 1) as usize;
    let only = args.get("only").cloned();
    let idle_s = arg_u64(args, "idle", 60) as f64;
    let mut out = Out::create(arg_str(args, "out", "c04.ndjson"));
    let mut pool = Pool::new(seed ^ 0xc04);
    let mut rng = rng_for(seed, "c04-plan");

    // inputs: small contended ones (finish within a few polynomials) up to 100 bits; 2 and 3 prime factors
    let mut shapes: Vec<(&str, Vec<u32>)> = vec![
        // tiny: a pool worker that starts at a distant polynomial block meets D^2 > n, one polynomial may be enough
        ("b36", vec![18, 18]),
        ("b40", vec![20, 20]),
        ("b44", vec![22, 22]),
        ("b48", vec![24, 24]),
        ("b56", vec![28, 28]),
        ("b64", vec![31, 33]),
        ("b66", vec![33, 33]),
        ("b72", vec![36, 36]),
        ("b80", vec![40, 40]),
        ("b90", vec![44, 46]),
        ("b100", vec![50, 50]),
        ("t72", vec![24, 24, 24]),
        ("t96", vec![30, 32, 34]),
        ("u70", vec![26, 44]),
        ("u100", vec![36, 64]),
    ];
    if thorough {
        shapes.extend(vec![("b52", vec![26, 26]), ("b60", vec![30, 30]), ("b86", vec![43, 43]), ("b96", vec![48, 48]),
                           ("t100", vec![33, 33, 34]), ("q96", vec![24, 24, 24, 24])]);
    }
    // --bits a,b,..: extra semiprime inputs of the given sizes (experiments / replays)
    let extra_bits: Vec<u32> = args.get("bits").map(|s| s.split(',').filter_map(|x| x.parse().ok()).collect()).unwrap_or_default();
    let extra_names: Vec<String> = extra_bits.iter().map(|b| format!("x{}", b)).collect();
    for (i, b) in extra_bits.iter().enumerate() {
        shapes.push((Box::leak(extra_names[i].clone().into_boxed_str()), vec![b / 2, b - b / 2]));
    }
    // --maxbits B: only inputs of at most B bits (the pass in the checked build profile)
    let maxbits = arg_u64(args, "maxbits", 10000) as u32;
    let sels_arg: Option<Vec<String>> = args.get("sels").map(|s| s.split(',').map(|x| x.to_string()).collect());
    let variants = [
        Variant { key: "def", use_double: None, large_factor: None, fb_size: None },
        Variant { key: "dbl", use_double: Some(true), large_factor: Some(40), fb_size: None },
        Variant { key: "nolp", use_double: Some(false), large_factor: Some(1), fb_size: None },
        Variant { key: "bigfb", use_double: Some(false), large_factor: None, fb_size: Some(400) },
        // oversized factor base on a 90-100 bit input: gap() reaches 0 with len <= fb, the precondition of the
        // stale-gap panic of SieveProto (MC_SieveProto_hazard.cfg); run with 2-3 threads under the ReadGap gate
        Variant { key: "fb1200", use_double: Some(false), large_factor: None, fb_size: Some(1200) },
    ];
    // undersized factor base on tiny inputs: one polynomial is no longer enough, the workers have to keep going
    // while others find their part of the polynomial supply exhausted
    let smallfb = Variant { key: "smallfb", use_double: None, large_factor: None, fb_size: Some(24) };
    // --fbs a,b,c: additional oversized factor bases (attempts to reach gap = 0 with len <= fb, the
    // precondition of the stale-gap panic of the model)
    let extra_fbs: Vec<u32> = args.get("fbs").map(|s| s.split(',').filter_map(|x| x.parse().ok()).collect()).unwrap_or_default();
    let mut variants: Vec<Variant> = variants.to_vec();
    for f in &extra_fbs {
        variants.push(Variant { key: Box::leak(format!("fb{}", f).into_boxed_str()), use_double: Some(false), large_factor: None, fb_size: Some(*f) });
    }
    let selectors = ["Siqs", "Mpqs", "Qs", "Ecm", "Auto"];
    let threads = [1usize, 2, 3, 4, 8, 16];
    let perts_per = if thorough { 25 } else { 4 }; // per (input, selector): total >= 20 per (selector, threads) over inputs
    let gate_kinds = ["rand", "rand", "gapgate", "wgate", "taskgate", "rand"];

    // ECM seed edge: the curve seeds of a stage with C curves are the low 32 bits of n * (2C+1)^k, k = 1..C,
    // clamped to at least 2.  Inputs whose k-th seed is exactly 1 (n = (2C+1)^-k mod 2^32, C = 10: the first
    // stage of the pure ECM schedule) exercise the clamp; a thread pool evaluates every seed of a batch while the
    // sequential loop stops at the first success.  Both primes are below 2^31 (certified by trial division).
    let mut all_inputs: Vec<(Input, bool)> = vec![];
    for (name, bits) in shapes.iter() {
        // all shards generate the same inputs (same pool order); each handles its own inputs
        all_inputs.push((make_input(&mut pool, &format!("{}-s{}", name, seed), bits), false));
    }
    {
        let mut erng = rng_for(seed, "c04-seededge");
        for k in [3u32, 10] {
            // 21^-k mod 2^32
            let mut inv21: u64 = 1;
            for _ in 0..5 {
                inv21 = inv21.wrapping_mul(2u64.wrapping_sub(21u64.wrapping_mul(inv21))); // Newton: inverse mod 2^64
            }
            let mut r: u64 = 1;
            for _ in 0..k {
                r = r.wrapping_mul(inv21);
            }
            let r = r & 0xffff_ffff;
            let inp = loop {
                let p = (rand_bits(&mut erng, 30).digits()[0] | 1) as u64;
                if !crate::gen::is_prime_u64(p) {
                    continue;
                }
                // q = r * p^-1 mod 2^32
                let mut pinv: u64 = 1;
                for _ in 0..6 {
                    pinv = pinv.wrapping_mul(2u64.wrapping_sub(p.wrapping_mul(pinv)));
                }
                let q = r.wrapping_mul(pinv) & 0xffff_ffff;
                if q < (1 << 28) || q >= (1 << 31) || q == p || !crate::gen::is_prime_u64(q) {
                    continue;
                }
                debug_assert!((p * q) & 0xffff_ffff == r);
                let mut primes = vec![Uint::from(p), Uint::from(q)];
                primes.sort();
                let chains = primes.iter().map(|x| Pool::small_chain(x.digits()[0])).collect();
                break Input { id: format!("seed1at{}-s{}", k, seed), n: Uint::from(p) * Uint::from(q), primes, chains };
            };
            all_inputs.push((inp, true));
        }
    }
    let mut stop = false;
    for (ii, (inp, ecm_only)) in all_inputs.into_iter().enumerate() {
        let plan_seed: u64 = rng.gen();
        if ii % nshards != shard || stop {
            continue;
        }
        if let Some(o) = &only {
            if *o != inp.id {
                continue;
            }
        }
        if inp.n.bits() > maxbits {
            continue;
        }
        let mut prng = StdRng::seed_from_u64(plan_seed);
        out.ev(input_event(&inp));
        let mut runno = 0;
        let mut tcount = 0usize;
        for sel in selectors {
            if ecm_only && sel != "Ecm" {
                continue;
            }
            if let Some(ss) = &sels_arg {
                if !ss.iter().any(|x| x == sel) {
                    continue;
                }
            }
            let alg = algo_of(sel);
            // sieve preference variants only matter for the sieves; Qs is slow above 80 bits
            let vars: Vec<&Variant> = match sel {
                "Siqs" => variants.iter().collect(),
                "Mpqs" => variants[..2].iter().collect(),
                "Qs" => variants[..2].iter().collect(),
                _ => variants[..1].iter().collect(),
            };
            if sel == "Qs" && inp.n.bits() > 80 {
                continue;
            }
            let mut vars = vars;
            if (sel == "Mpqs" || sel == "Siqs") && inp.n.bits() <= 48 {
                vars.push(&smallfb);
            }
            for v in vars {
                if v.key == "bigfb" && inp.n.bits() > 80 {
                    continue;
                }
                let probe = v.key.starts_with("fb");
                if v.key == "fb1200" && !(88..=100).contains(&inp.n.bits()) {
                    continue;
                }
                // baseline: no pool at all
                let mut todo: Vec<(Option<usize>, Pert)> = vec![(None, Pert { kind: "none".into(), seed: 0 })];
                let np = match sel {
                    "Ecm" | "Auto" => perts_per * 11 / 4,
                    "Mpqs" => perts_per * 5 / 4,
                    "Qs" => perts_per * 2,
                    _ if probe => perts_per.max(10),
                    _ => perts_per,
                };
                for j in 0..np {
                    // thread counts cycle so that every (selector, threads) cell gets its share of perturbations
                    tcount += 1;
                    let t = threads[(ii + tcount + j * 0) % threads.len()];
                    let t = if probe { if prng.gen_range(0..4) == 0 { 3 } else { 2 } } else { t };
                    let kind = gate_kinds[prng.gen_range(0..gate_kinds.len())];
                    // gates are about the SIQS/MPQS/ECM flags; other selectors get random perturbation
                    let kind = if probe && t > 1 { "gapgate" } else { kind };
                    let kind = if (kind == "gapgate" && !(sel == "Siqs" || sel == "Auto")) || t == 1 { "rand" } else { kind };
                    todo.push((Some(t), Pert { kind: kind.into(), seed: prng.gen::<u32>() as u64 }));
                }
                for (t, pert) in todo {
                    runno += 1;
                    out.ev(json!({"op": "begin", "case": inp.id, "run": format!("{}/{}/{}/t{}/{}{}#{}", inp.id, sel, v.key,
                                      t.map(|x| x as i64).unwrap_or(0), pert.kind, pert.seed, runno),
                                  "alg": sel, "variant": v.key, "threads": t.map(|x| x as i64).unwrap_or(0), "base": t.is_none(),
                                  "bkey": format!("{}/{}", sel, v.key), "pert": pert.kind, "n": dn(&inp.n), "n_dec": inp.n.to_string()}));
                    out.flush();
                    let polls = Arc::new(AtomicUsize::new(0));
                    let stats = install_pert(&pert);
                    let vv = v.clone();
                    let r = run_factor(inp.n, alg, move || {
                        let mut prefs = prefs_of(&vv, t);
                        prefs.should_abort = Some(logging_never_abort(polls));
                        prefs
                    }, idle_s, &|_| false);
                    let evs = compact_all(&r.raw);
                    let mut e = json!({
                        "op": "run", "case": inp.id, "run": format!("{}/{}/{}/t{}/{}{}#{}", inp.id, sel, v.key,
                            t.map(|x| x as i64).unwrap_or(0), pert.kind, pert.seed, runno),
                        "alg": sel, "variant": v.key, "threads": t.map(|x| x as i64).unwrap_or(0),
                        "base": t.is_none(), "bkey": format!("{}/{}", sel, v.key),
                        "pert": pert.kind, "pseed": pert.seed, "gate_holds": stats[0].load(Ordering::Relaxed),
                        "gate_released": stats[1].load(Ordering::Relaxed),
                        "raw_events": r.raw_count, "wall_ms": (r.wall_ms * 10.0).round() / 10.0,
                        "n": dn(&inp.n), "n_dec": inp.n.to_string(), "evs": evs,
                    });
                    let of = outcome_fields(&r.outcome);
                    for (k, v) in of.as_object().unwrap() {
                        e[k] = v.clone();
                    }
                    out.ev(e);
                    out.flush();
                    if r.hung {
                        // the abandoned thread keeps writing into the process-wide sink: stop this process
                        stop = true;
                        break;
                    }
                }
                if stop {
                    break;
                }
            }
            if stop {
                break;
            }
        }
    }
    let _ = HashMap::<u8, u8>::new();
    out.finish();
    0
}
