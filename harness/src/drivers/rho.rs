//! Pollard rho (Brent) on moduli below 2^15, where spec/rho/RhoFn.tla is an exact model of `rho64`:
//! batches of real calls of rho64 / rho / rho_semiprime, validated by RhoTrace.tla
//! (Strict: the split is genuine; Drift: it is the split the model computes).
use rand::Rng;
use serde_json::{json, Value};

use yamaquasi::{pollard_rho, squfof, Uint, Verbosity};

use crate::gen::rng_for;
use crate::trace::*;

fn composite_odd(n: u64) -> bool {
    if n % 2 == 0 || n < 9 {
        return false;
    }
    let mut d = 3;
    while d * d <= n {
        if n % d == 0 {
            return true;
        }
        d += 2;
    }
    false
}

fn pair(r: Option<(u64, u64)>) -> Value {
    match r {
        Some((a, b)) => json!([a.min(i32::MAX as u64), b.min(i32::MAX as u64)]), // TLC integers are 32-bit; a word that large is wrong anyway
        None => json!([]),
    }
}

/// Shanks's square forms on inputs with 50 n < 2^31 (spec/squfof/SqufofFn.tla is exact there), restricted to what
/// factor_impl hands to it: no prime factor below 53.
fn run_squfof(args: &Args) -> i32 {
    let thorough = arg_str(args, "tier", "quick") == "thorough";
    let seed = arg_u64(args, "seed", 1);
    let mut rng = rng_for(seed, "squfof");
    let mut out = Out::create(arg_str(args, "out", "trace.ndjson"));
    let small: Vec<u64> = vec![2, 3, 5, 7, 11, 13, 17, 19, 23, 29, 31, 37, 41, 43, 47];
    let dom = |n: u64| small.iter().all(|&p| n % p != 0);
    let limit: u64 = (1u64 << 31) / 50 - 1;
    let mut windows: Vec<(u64, u64)> = vec![(2809, if thorough { 200_000 } else { 30_000 })];
    for _ in 0..(if thorough { 60 } else { 6 }) {
        let lo = rng.gen_range(30_000u64..limit - 3000);
        windows.push((lo, lo + if thorough { 2500 } else { 1000 }));
    }
    windows.push((limit - 1000, limit));
    for &(lo, hi) in &windows {
        // composites of the domain, and the primes = 1 mod 64 (a prime costs the model all 50 multipliers)
        let ns: Vec<u64> = (lo..hi).filter(|&n| dom(n) && (composite_odd(n) || n % 64 == 1)).collect();
        for ch in ns.chunks(32) {
            let v = ch.to_vec();
            let r = guard_deadline(120.0, move || {
                v.iter()
                    .map(|&n| match guard(|| squfof::squfof(n)) {
                        Ok(r) => pair(r),
                        Err(_) => json!([0, 0]), // a panic of one call
                    })
                    .collect::<Vec<Value>>()
            });
            let base = json!({"op": "squfof_batch", "case": format!("squfof/{}-{}", ch[0], ch[ch.len() - 1]), "ns": ch});
            match r {
                Ok(rs) => out.ev2(base, json!({"rs": rs})),
                Err(e) => out.ev2(base, e),
            }
        }
    }
    out.finish();
    0
}

pub fn run(args: &Args) -> i32 {
    if arg_str(args, "what", "rho") == "squfof" {
        return run_squfof(args);
    }
    let thorough = arg_str(args, "tier", "quick") == "thorough";
    let seed = arg_u64(args, "seed", 1);
    let mut rng = rng_for(seed, "rho");
    let mut out = Out::create(arg_str(args, "out", "trace.ndjson"));
    const B: usize = 48;
    // windows of consecutive integers: everything small, then seeded windows up to 2^15 (the model is exact below 2^15)
    let mut windows: Vec<(u64, u64)> = vec![(9, if thorough { 8192 } else { 2048 })];
    for _ in 0..(if thorough { 40 } else { 8 }) {
        let lo = rng.gen_range(2048u64..32768 - 512);
        windows.push((lo, lo + 512));
    }
    windows.push((32768 - 400, 32768));
    let mut batch = |out: &mut Out, op: &str, ns: &[u64], c: u64, iters: u64| {
        let nsv = ns.to_vec();
        let opn = op.to_string();
        let r = guard_deadline(120.0, move || {
            nsv.iter()
                .map(|&n| match opn.as_str() {
                    "rho64_batch" => pair(pollard_rho::rho64(n, c, iters)),
                    "semi_batch" => pair(pollard_rho::rho_semiprime(n)),
                    _ => match pollard_rho::rho(&Uint::from(n), Verbosity::Silent) {
                        Some((f, r)) if f.len() == 1 => pair(Some((f[0].digits()[0], r.digits()[0]))),
                        // several factors at once (not what the code does today, but allowed): judged as (their product, rest)
                        Some((f, r)) => pair(Some((f.iter().fold(1u64, |a, x| a.saturating_mul(x.digits()[0])), r.digits()[0]))),
                        None => json!([]),
                    },
                })
                .collect::<Vec<Value>>()
        });
        let base = json!({"op": op, "case": format!("{}/{}-{}/{}/{}", op, ns[0], ns[ns.len() - 1], c, iters), "ns": ns, "c": c, "iters": iters});
        match r {
            Ok(rs) => out.ev2(base, json!({"rs": rs})),
            Err(e) => out.ev2(base, e),
        }
    };
    for (wi, &(lo, hi)) in windows.iter().enumerate() {
        let comps: Vec<u64> = (lo..hi).filter(|&n| composite_odd(n)).collect();
        for (bi, ch) in comps.chunks(B).enumerate() {
            // the increments rho() uses, and the loop bounds on both sides of the periodic-gcd threshold (512)
            let c = [1u64, 2, 3, 9, 5][(bi + wi) % 5];
            let iters = [128u64, 128, 600, 2048, 97][(bi / 5 + wi) % 5];
            batch(&mut out, "rho64_batch", ch, c, iters);
            if bi % 3 == 0 {
                batch(&mut out, "rho_batch", ch, 0, 0);
            }
            if bi % 7 == 0 {
                batch(&mut out, "semi_batch", ch, 0, 0);
            }
        }
    }
    // odd primes and prime squares: no split exists / only d = p; the loop runs to its end through the periodic gcds
    let primes: Vec<u64> = (3..32768u64).filter(|&n| n % 2 == 1 && !composite_odd(n)).collect();
    for k in 0..(if thorough { 60 } else { 12 }) {
        let ch: Vec<u64> = (0..16).map(|_| primes[rng.gen_range(0..primes.len())]).collect();
        batch(&mut out, "rho64_batch", &ch, 1 + k % 9, [128u64, 700, 1300][k as usize % 3]);
    }
    let sq: Vec<u64> = primes.iter().filter(|&&p| p * p < 32768).map(|&p| p * p).collect();
    for ch in sq.chunks(16) {
        batch(&mut out, "rho64_batch", ch, 1, 128);
        batch(&mut out, "rho64_batch", ch, 2, 600);
        batch(&mut out, "rho_batch", ch, 0, 0);
    }
    out.finish();
    0
}
