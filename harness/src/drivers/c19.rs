//! C19 driver: integer determinants, lattice indices, Smith forms (matrix::intdense, matrix::intsparse).
//!
//! Input: behaviours of spec/unimat/UniMat.tla (TLC simulation, one JSON object per line): a matrix
//! M = basis rows, redundant rows X, and the bookkeeping det(M) = sign * prod(factors), quotient group
//! (+) Z/diag[i] while `grp`.  The driver replays each behaviour into the real routines, and derives
//! further variants natively with the SAME bookkeeping rules (the rules are model checked in UniMat.tla
//! for k <= 3, and the trace specification re-derives det(M) mod small primes from the logged matrix):
//!   ext   : M embedded in a larger K x K matrix (rest diagonal), mixed by further +-1 row/column
//!           additions, swaps, negations (K up to 60 dense, up to ~300 sparse)
//!   big   : rows scaled by 40..58-bit tokens so that the determinant needs 1..20+ CRT primes
//! Every event carries the known facts (sign, factors, diag) and the result of one routine; the TLA+
//! trace specification UniMatTrace.tla is the judge.  Panics are events (`outcome`).

use bnum::cast::CastFrom;
use bnum::types::{I4096, U256};
use bnum::{BInt, BUint};
use rand::rngs::StdRng;
use rand::seq::SliceRandom;
use rand::Rng;
use serde_json::{json, Value};

use yamaquasi::matrix::intdense::{self, SmithNormalForm};
use yamaquasi::matrix::intsparse::{self, berlekamp_massey, SparseMat};

use crate::gen::{is_prime_u64, rng_for};
use crate::trace::*;

#[derive(Clone)]
struct Case {
    id: String,
    variant: &'static str,
    k: usize,
    m: Vec<Vec<i64>>,
    x: Vec<Vec<i64>>,
    xc: Option<Vec<Vec<i64>>>,
    sign: i64,
    factors: Vec<i128>,
    diag: Vec<i64>,
    grp: bool,
    src: Value,
}

fn rows_of(v: &Value) -> Vec<Vec<i64>> {
    v.as_array().unwrap().iter().map(|r| r.as_array().unwrap().iter().map(|x| x.as_i64().unwrap()).collect()).collect()
}

fn case_from(bi: usize, b: &Value) -> Case {
    Case {
        id: format!("b{}", bi),
        variant: "base",
        k: b["k"].as_u64().unwrap() as usize,
        m: rows_of(&b["M"]),
        x: rows_of(&b["X"]),
        xc: Some(rows_of(&b["XC"])),
        sign: b["sign"].as_i64().unwrap(),
        factors: b["factors"].as_array().unwrap().iter().map(|x| x.as_i64().unwrap() as i128).collect(),
        diag: b["diag"].as_array().unwrap().iter().map(|x| x.as_i64().unwrap()).collect(),
        grp: b["grp"].as_bool().unwrap(),
        src: json!({"steps": b["steps"], "nops": b["nops"]}),
    }
}

impl Case {
    fn singular(&self) -> bool {
        self.factors.iter().any(|&f| f == 0)
    }
    fn log2det(&self) -> f64 {
        self.factors.iter().map(|&f| (f.unsigned_abs() as f64).log2()).sum()
    }
    /// |det| when it fits 120 bits
    fn index_u128(&self) -> Option<u128> {
        let mut h: u128 = 1;
        for &f in &self.factors {
            h = h.checked_mul(f.unsigned_abs())?;
            if h >> 120 != 0 {
                return None;
            }
        }
        Some(h)
    }
    fn max_abs(&self) -> u64 {
        self.m.iter().chain(self.x.iter()).flat_map(|r| r.iter()).map(|x| x.unsigned_abs()).max().unwrap_or(0)
    }
    fn base_fields(&self, op: &str) -> Value {
        json!({
            "op": op, "case": self.id, "variant": self.variant, "k": self.k, "sign": self.sign,
            "factors": self.factors.iter().map(|&f| di128(f)).collect::<Vec<_>>(),
            "diag": self.diag, "grp": self.grp, "src": self.src, "nx": self.x.len(),
        })
    }
    /// the matrix, for the specification's own determinant (mod small primes): plain ints or BigInt records
    fn matrix_fields(&self, ev: &mut Value) {
        let o = ev.as_object_mut().unwrap();
        if self.k > 64 {
            o.insert("mk".into(), json!("none"));
        } else if self.max_abs() < (1 << 31) {
            o.insert("mk".into(), json!("int"));
            o.insert("Mi".into(), json!(self.m));
        } else {
            o.insert("mk".into(), json!("big"));
            o.insert("Mb".into(), Value::from(self.m.iter().map(|r| Value::from(r.iter().map(|&x| di64(x)).collect::<Vec<_>>())).collect::<Vec<_>>()));
        }
    }
}

// ---------------------------------------------------------------------------------------------
// native variants (same bookkeeping as UniMat.tla)
// ---------------------------------------------------------------------------------------------

const EXTRA_DIAG: &[i64] = &[1, 1, 1, 1, 2, 2, 3, 4, 5, 6, 8, 9, 12, 16, 27, 64, 100, 101, 1009];

/// M embedded in K x K, rest diagonal from EXTRA_DIAG, then `nops` elementary operations with
/// coefficients +-1 (entries kept below `bound`).
fn extend(c: &Case, rng: &mut StdRng, kk: usize, nops: usize, bound: i64, tag: &str) -> Case {
    let k = c.k;
    assert!(kk >= k);
    let mut m = vec![vec![0i64; kk]; kk];
    for i in 0..k {
        m[i][..k].copy_from_slice(&c.m[i]);
    }
    let mut diag = c.diag.clone();
    let mut factors = c.factors.clone();
    for i in k..kk {
        let d = *EXTRA_DIAG.choose(rng).unwrap();
        m[i][i] = d;
        diag.push(d);
        factors.push(d as i128);
    }
    let mut x: Vec<Vec<i64>> = c
        .x
        .iter()
        .map(|r| {
            let mut v = r.clone();
            v.resize(kk, 0);
            v
        })
        .collect();
    let mut sign = c.sign;
    let ok = |v: i64| v.abs() <= bound;
    // every row receives another one first (untouched rows d*e_i with equal d make the matrix derogatory,
    // which is the documented blind spot of the Wiedemann determinant)
    for i in 0..kk {
        let j = (i + 1 + rng.gen_range(0..kk - 1)) % kk;
        let cf: i64 = if rng.gen() { 1 } else { -1 };
        if j != i && (0..kk).all(|t| ok(m[i][t] + cf * m[j][t])) {
            for t in 0..kk {
                m[i][t] += cf * m[j][t];
            }
        }
    }
    for _ in 0..nops {
        match rng.gen_range(0..10) {
            0..=3 => {
                // row_i += c row_j
                let (i, j) = (rng.gen_range(0..kk), rng.gen_range(0..kk));
                let cf: i64 = if rng.gen() { 1 } else { -1 };
                if i == j {
                    continue;
                }
                if (0..kk).all(|t| ok(m[i][t] + cf * m[j][t])) {
                    for t in 0..kk {
                        m[i][t] += cf * m[j][t];
                    }
                }
            }
            4..=7 => {
                // col_i += c col_j on every generator
                let (i, j) = (rng.gen_range(0..kk), rng.gen_range(0..kk));
                let cf: i64 = if rng.gen() { 1 } else { -1 };
                if i == j {
                    continue;
                }
                if m.iter().chain(x.iter()).all(|r| ok(r[i] + cf * r[j])) {
                    for r in m.iter_mut().chain(x.iter_mut()) {
                        r[i] += cf * r[j];
                    }
                }
            }
            8 => {
                let (i, j) = (rng.gen_range(0..kk), rng.gen_range(0..kk));
                if i != j {
                    m.swap(i, j);
                    sign = -sign;
                }
            }
            _ => {
                let i = rng.gen_range(0..kk);
                for t in 0..kk {
                    m[i][t] = -m[i][t];
                }
                sign = -sign;
            }
        }
    }
    // a few more redundant generators: sums / differences of two basis rows
    for _ in 0..rng.gen_range(1..5) {
        let (i, j) = (rng.gen_range(0..kk), rng.gen_range(0..kk));
        let cf: i64 = if rng.gen() { 1 } else { -1 };
        let row: Vec<i64> = (0..kk).map(|t| m[i][t] + if i != j { cf * m[j][t] } else { 0 }).collect();
        if row.iter().all(|&v| ok(v)) {
            x.push(row);
        }
    }
    Case { id: format!("{}/{}{}", c.id, tag, kk), variant: "ext", k: kk, m, x, xc: None, sign, factors, diag, grp: c.grp, src: c.src.clone() }
}

/// rows scaled by tokens (ScaleRow): factors appended, group no longer known, no redundant rows
fn scale_big(c: &Case, rng: &mut StdRng, nrows: usize, tag: &str) -> Case {
    let mut m = c.m.clone();
    let mut factors = c.factors.clone();
    let mut idx: Vec<usize> = (0..c.k).collect();
    idx.shuffle(rng);
    for &i in idx.iter().take(nrows) {
        let rowmax = m[i].iter().map(|x| x.unsigned_abs()).max().unwrap().max(1);
        // token * rowmax < 2^62
        let room = 62 - (64 - rowmax.leading_zeros());
        if room < 8 {
            continue;
        }
        let bits = rng.gen_range((room.saturating_sub(20)).max(2)..=room.min(58));
        let mut t: i64 = (rng.gen::<u64>() >> (64 - bits)) as i64 | (1i64 << (bits - 1));
        if rng.gen_range(0..4) == 0 {
            t = -t;
        }
        for v in m[i].iter_mut() {
            *v *= t;
        }
        factors.push(t as i128);
    }
    Case { id: format!("{}/{}", c.id, tag), variant: "big", k: c.k, m, x: vec![], xc: None, sign: c.sign, factors, diag: c.diag.clone(), grp: false, src: c.src.clone() }
}

// ---------------------------------------------------------------------------------------------
// calls
// ---------------------------------------------------------------------------------------------

fn merge(mut base: Value, extra: Value) -> Value {
    if let (Some(b), Some(e)) = (base.as_object_mut(), extra.as_object()) {
        for (k, v) in e {
            b.insert(k.clone(), v.clone());
        }
        // class of a panic message (text only; which classes count as announced refusals is the
        // specification's decision)
        if let Some(msg) = e.get("msg").and_then(|m| m.as_str()) {
            let rk = if msg.starts_with("failed to determine lattice index") {
                "noindex"
            } else if msg.contains("(d - d.round()).abs()") || msg.contains("logdiff=") {
                "float"
            } else if msg.contains("hmax / hmin") || msg.contains("hmin <= hmax") {
                "bounds"
            } else if msg.contains("generators [") {
                "snfdet"
            } else {
                "other"
            };
            b.insert("rk".into(), json!(rk));
        }
    }
    base
}

fn sparse_rows(rows: &[Vec<i64>]) -> Vec<Vec<(u32, i32)>> {
    rows.iter().map(|r| r.iter().enumerate().filter(|(_, &v)| v != 0).map(|(j, &v)| (j as u32, v as i32)).collect()).collect()
}

fn norm_of(rows: &[Vec<i64>]) -> u64 {
    rows.iter()
        .map(|r| {
            let pos: i64 = r.iter().filter(|&&v| v > 0).sum();
            let neg: i64 = -r.iter().filter(|&&v| v < 0).sum::<i64>();
            pos.max(neg) as u64
        })
        .max()
        .unwrap_or(0)
}

/// Domain of SparseMat::detz read off the code: entries fit i16, dimension n >= 8, and the determinant
/// is decided by the first floor(n/4)-1 groups of four primes just below 2^63/norm (the last group only
/// confirms), else the routine runs out of primes (`unreachable!`).
fn sparse_det_in_domain(c: &Case) -> bool {
    let n = c.k;
    if n < 8 || c.max_abs() >= (1 << 15) {
        return false;
    }
    let norm = norm_of(&c.m);
    if norm == 0 {
        return false;
    }
    let pbits = 62 - (64 - norm.leading_zeros()) as i64; // every selected prime exceeds 2^pbits
    let groups = (n / 4) as i64 - 1;
    if c.singular() {
        return true;
    }
    (c.log2det() + 3.0) < (4 * groups * pbits) as f64
}

fn ev_det_dense(c: &Case, out: &mut Out) {
    if c.singular() {
        return;
    }
    let l2 = c.log2det();
    if l2.round() < 1.0 || l2.round() > 63.0 * 64.0 {
        return; // documented domain of det_matz: |det| >= 2, at most 4032 bits
    }
    let mut ev = c.base_fields("det_dense");
    c.matrix_fields(&mut ev);
    let m = c.m.clone();
    let r = guard(move || {
        let rows: Vec<&[i64]> = m.iter().map(|v| &v[..]).collect();
        intdense::det_matz(rows, l2)
    });
    let nprimes = ((l2.round() as usize) + 59) / 60;
    let ev = merge(ev, json!({"log2": l2, "nprimes": nprimes}));
    out.ev(match r {
        Ok(d) => merge(ev, json!({"res": di(&d)})),
        Err(e) => merge(ev, e),
    });
}

/// Classification (not a verdict) of the input of the Wiedemann determinant: is the scalar Krylov sequence the
/// routine uses - first coordinate of M^i v, v_j = Fibonacci(j + 2) mod 65537 - of linear complexity below n
/// modulo p?  Then no polynomial of degree n can be recovered from it and the routine returns 0 (its own
/// "FIXME: what if degree != n").  Computed with the harness's own arithmetic (Berlekamp-Massey over GF(p)).
fn wiedemann_deficient(m: &[Vec<i64>], p: u64) -> bool {
    let n = m.len();
    let mm = |a: u64, b: u64| ((a as u128 * b as u128) % p as u128) as u64;
    let red = |x: i64| -> u64 { (((x as i128) % (p as i128) + p as i128) % p as i128) as u64 };
    let rows: Vec<Vec<(usize, u64)>> =
        m.iter().map(|r| r.iter().enumerate().filter(|(_, &x)| x != 0).map(|(j, &x)| (j, red(x))).collect()).collect();
    let (mut x, mut y) = (0u64, 1u64);
    let mut v: Vec<u64> = vec![];
    for _ in 0..n {
        (x, y) = (y, (x + y) % 65537);
        v.push(y % p);
    }
    let mut seq = vec![];
    for _ in 0..2 * n {
        seq.push(v[0]);
        let w: Vec<u64> = rows.iter().map(|r| r.iter().fold(0u64, |acc, &(j, a)| (acc + mm(a, v[j])) % p)).collect();
        v = w;
    }
    // Berlekamp-Massey: linear complexity l of seq
    let pw = |mut b: u64, mut e: u64| { let mut r = 1u64; while e > 0 { if e & 1 == 1 { r = mm(r, b); } b = mm(b, b); e >>= 1; } r };
    let (mut c, mut b) = (vec![0u64; 2 * n + 2], vec![0u64; 2 * n + 2]);
    c[0] = 1;
    b[0] = 1;
    let (mut l, mut mshift, mut bd) = (0usize, 1usize, 1u64);
    for i in 0..seq.len() {
        let mut d = seq[i];
        for j in 1..=l {
            d = (d + mm(c[j], seq[i - j])) % p;
        }
        if d == 0 {
            mshift += 1;
        } else {
            let t = c.clone();
            let coef = mm(d, pw(bd, p - 2));
            for j in 0..(2 * n + 2 - mshift) {
                c[j + mshift] = (c[j + mshift] + p - mm(coef, b[j])) % p;
            }
            if 2 * l <= i {
                l = i + 1 - l;
                b = t;
                bd = d;
                mshift = 1;
            } else {
                mshift += 1;
            }
        }
    }
    l < n
}

fn ev_det_sparse(c: &Case, rng: &mut StdRng, out: &mut Out) {
    if c.max_abs() >= (1 << 15) || norm_of(&c.m) == 0 || c.k == 0 {
        return;
    }
    let rows = sparse_rows(&c.m);
    // determinant modulo four word-size primes (Wiedemann): any dimension
    {
        let norm = norm_of(&c.m);
        let bound = (1u64 << 62) / norm;
        let mut ps = [0u64; 4];
        for p in ps.iter_mut() {
            loop {
                let cand = rng.gen_range(bound / 2..bound) | 1;
                if cand > 70000 && is_prime_u64(cand) {
                    *p = cand;
                    break;
                }
            }
        }
        if c.k % 3 == 0 {
            ps[3] = ps[0]; // repeated modulus is allowed (the repository's own test does it)
        }
        let mut ev = c.base_fields("detp4");
        c.matrix_fields(&mut ev);
        let rr = rows.clone();
        let r = guard(move || SparseMat::new(rr).detp4(ps));
        let wdef = ps.iter().any(|&p| wiedemann_deficient(&c.m, p));
        let ev = merge(ev, json!({"primes": ps.iter().map(|&p| du(p)).collect::<Vec<_>>(), "wdef": wdef}));
        out.ev(match r {
            Ok(d) => merge(ev, json!({"res": d.iter().map(|&x| du(x)).collect::<Vec<_>>(), "zero": d.iter().any(|&x| x == 0)})),
            Err(e) => merge(ev, e),
        });
    }
    if sparse_det_in_domain(c) {
        let mut ev = c.base_fields("det_sparse");
        c.matrix_fields(&mut ev);
        let rr = rows.clone();
        let r = guard(move || SparseMat::new(rr).detz(None));
        let ev = merge(ev, json!({"wdef": wiedemann_deficient(&c.m, (1u64 << 61) - 1)}));
        out.ev(match r {
            Ok(d) => merge(ev, json!({"res": di(&d), "zero": d.is_zero()})),
            Err(e) => merge(ev, e),
        });
    }
}

/// bounds bracketing h: (shape name, hmin, hmax), all within the documented ratio after the routine's own
/// widening by 0.9 / 1.1 (hmax * 1.1 / (hmin * 0.9) < 1.5)
fn bounds_for(h: u128, shape: usize) -> (&'static str, f64, f64) {
    let hf = h as f64;
    let (name, mut lo, mut hi) = bounds_shape(hf, shape);
    if h >> 52 != 0 {
        // h as f64 is rounded: keep the bracket true for the exact integer
        lo = lo.min((hf * (1.0 - 1e-15)).floor());
        hi = hi.max((hf * (1.0 + 1e-15)).ceil());
    }
    let prec = (hi - lo).abs();
    let wlo = (0.9 * lo).max(lo - 3.0 * prec);
    let whi = (1.1 * hi).min(hi + 3.0 * prec);
    if lo >= 1.0 && whi / wlo < 1.47 {
        (name, lo, hi)
    } else {
        ("exact", hf, hf)
    }
}

fn bounds_shape(hf: f64, shape: usize) -> (&'static str, f64, f64) {
    match shape % 5 {
        0 => ("exact", hf, hf),
        1 => ("pm1pc", (hf * 0.99).floor(), (hf * 1.01).ceil()),
        2 => ("wide", (hf * 0.92).floor(), (hf * 1.09).ceil()),
        3 => ("above", hf, (hf * 1.2).ceil()),
        _ => ("below", (hf * 0.84).floor(), hf),
    }
}

fn all_rows(c: &Case, rng: &mut StdRng) -> Vec<Vec<i64>> {
    let mut rows: Vec<Vec<i64>> = c.m.iter().chain(c.x.iter()).filter(|r| r.iter().any(|&v| v != 0)).cloned().collect();
    // the routines expect an overdetermined system (at least 4 generators): pad with copies / negated
    // copies of basis rows (redundant generators, lattice unchanged)
    let mut i = 0;
    while rows.len() < 4.max(c.k + 1) {
        let r = &c.m[i % c.k];
        rows.push(if i % 2 == 0 { r.clone() } else { r.iter().map(|v| -v).collect() });
        i += 1;
    }
    rows.shuffle(rng);
    rows
}

fn ev_lattice(c: &Case, rng: &mut StdRng, out: &mut Out, shape: usize, sparse_too: bool) {
    if c.singular() || c.max_abs() >= (1 << 27) {
        return;
    }
    let Some(h) = c.index_u128() else { return };
    let (bname, hmin, hmax) = bounds_for(h, shape);
    if !(hmin >= 1.0) {
        return;
    }
    let rows = all_rows(c, rng);
    let bfields = json!({"bounds": bname, "hmin": du128(hmin as u128), "hmax": du128(hmax as u128), "nrows": rows.len()});
    {
        let mut ev = merge(c.base_fields("lattice_dense"), bfields.clone());
        c.matrix_fields(&mut ev);
        if let Some(xc) = &c.xc {
            if c.k <= 12 {
                ev = merge(ev, json!({"X": c.x, "XC": xc}));
            }
        }
        let rr = rows.clone();
        let r = guard(move || intdense::compute_lattice_index(&rr, hmin, hmax));
        out.ev(match r {
            Ok(d) => merge(ev, json!({"res": du128(d)})),
            Err(e) => merge(ev, e),
        });
    }
    if sparse_too && sparse_det_in_domain(c) && rows.iter().all(|r| r.iter().all(|v| v.abs() < (1 << 15))) {
        let ev = merge(c.base_fields("lattice_sparse"), bfields);
        let rr = sparse_rows(&rows);
        let k = c.k;
        let r = guard(move || intsparse::compute_lattice_index(k, &rr, hmin, hmax, None));
        out.ev(match r {
            Ok(d) => merge(ev, json!({"res": dn(&d)})),
            Err(e) => merge(ev, e),
        });
    }
}

fn ev_snf(c: &Case, rng: &mut StdRng, out: &mut Out, shape: usize) {
    if c.singular() || c.max_abs() >= (1 << 27) {
        return;
    }
    let Some(h) = c.index_u128() else { return };
    let (bname, hmin, hmax) = bounds_for(h, shape);
    if !(hmin >= 1.0) {
        return;
    }
    let rows = all_rows(c, rng);
    // generator identifiers: increasing, not contiguous
    let ids: Vec<u32> = (0..c.k as u32).map(|j| 3 * j + 2).collect();
    let rels: Vec<Vec<(u32, i32)>> = rows.iter().map(|r| r.iter().enumerate().filter(|(_, &v)| v != 0).map(|(j, &v)| (ids[j], v as i32)).collect()).collect();
    let ev = merge(c.base_fields("snf"), json!({"bounds": bname, "hmin": du128(hmin as u128), "hmax": du128(hmax as u128), "nrows": rows.len()}));
    let r = guard(move || {
        let mut s = SmithNormalForm::new(&rels, vec![], hmin, hmax);
        s.reduce();
        let n = s.rows.len();
        let mut offdiag_zero = true;
        let mut dg = vec![];
        for i in 0..n {
            for j in 0..s.rows[i].len() {
                if i != j && s.rows[i][j] != 0 {
                    offdiag_zero = false;
                }
            }
            dg.push(s.rows[i][i]);
        }
        (s.h, dg, offdiag_zero, s.gens.len(), s.removed.len())
    });
    out.ev(match r {
        Ok((hh, dg, odz, ngens, nrem)) => merge(
            ev,
            json!({"h": du128(hh), "out": dg.iter().map(|&d| di128(d)).collect::<Vec<_>>(), "offdiag_zero": odz, "ngens": ngens, "nremoved": nrem}),
        ),
        Err(e) => merge(ev, e),
    });
}

// ---------------------------------------------------------------------------------------------
// Smith form as a presentation: groups with several invariant factors, the map generator -> coordinates
// ---------------------------------------------------------------------------------------------

/// Relation lattices of known quotient groups with 3..4 non-trivial invariant factors (diag(d) times a random unimodular
/// matrix, plus redundant rows).  The event carries what `SmithNormalForm` returns as a presentation: the diagonal, the
/// kept generators with their rows of the transformation matrix, the substitution relations of the removed ones.
/// TLC rebuilds every generator's coordinates and checks that each input relation maps to zero (UniMatTrace!SnfHomOK).
fn ev_snf_hom(rng: &mut StdRng, out: &mut Out, idx: usize) {
    const GROUPS: [&[i64]; 12] = [&[6, 10, 15], &[2, 6, 12], &[4, 4, 8], &[2, 2, 2, 2], &[30, 30, 2], &[3, 9, 27], &[2, 4, 8, 16], &[6, 6, 6],
                                  &[5, 10, 20, 3], &[12, 18, 30], &[2, 2, 4], &[15, 21, 35]];
    let diag = GROUPS[idx % GROUPS.len()];
    let n = diag.len() + (idx / GROUPS.len()) % 3;
    let mut d = vec![1i64; n];
    for (i, &x) in diag.iter().enumerate() {
        d[n - diag.len() + i] = x;
    }
    let h: i64 = d.iter().product();
    // unimodular by elementary row operations, entries kept small
    let mut u = vec![vec![0i64; n]; n];
    for i in 0..n {
        u[i][i] = 1;
    }
    for _ in 0..4 * n {
        let (i, j) = (rng.gen_range(0..n), rng.gen_range(0..n));
        if i == j {
            continue;
        }
        let k = if rng.gen_bool(0.5) { 1 } else { -1 };
        let cand: Vec<i64> = (0..n).map(|c| u[i][c] + k * u[j][c]).collect();
        if cand.iter().all(|x| x.abs() <= 40) {
            u[i] = cand;
        }
    }
    // columns mixed too (otherwise row i is just d[i] times a unimodular row): M = diag(d) * U, then column operations
    let mut basis: Vec<Vec<i64>> = (0..n).map(|i| (0..n).map(|j| d[i] * u[i][j]).collect()).collect();
    let mut rows: Vec<Vec<i64>> = vec![];
    for _ in 0..rng.gen_range(0..4) {
        let mut v = vec![0i64; n];
        for b in &basis {
            let k = rng.gen_range(-1..=1);
            for c in 0..n {
                v[c] += k * b[c];
            }
        }
        if v.iter().any(|&x| x != 0) {
            rows.push(v);
        }
    }
    if idx % 2 == 0 {
        let mut v = std::mem::take(&mut basis);
        v.extend(rows);
        rows = v;
    } else {
        rows.extend(std::mem::take(&mut basis));
    }
    let labels: Vec<u32> = (0..n as u32).map(|i| 3 + 2 * i).collect();
    let rels: Vec<Vec<(u32, i32)>> = rows.iter().map(|v| v.iter().enumerate().filter(|(_, &x)| x != 0).map(|(i, &x)| (labels[i], x as i32)).collect()).collect();
    let hf = h as f64;
    let (hmin, hmax) = if idx % 3 == 0 { (hf * 0.97, hf * 1.04) } else { (hf * 0.9999, hf * 1.0001) };
    let relsj: Vec<Value> = rels.iter().map(|r| Value::from(r.iter().map(|&(l, e)| json!([l, (e as i64).rem_euclid(h)])).collect::<Vec<_>>())).collect();
    let ev = json!({"op": "snf_hom", "case": format!("snf_hom/{}", idx), "group": diag, "n": n, "h": h, "labels": labels, "rels": relsj,
                    "exact_bounds": idx % 3 != 0});
    let rels2 = rels.clone();
    let r = guard(move || {
        let mut s = SmithNormalForm::new(&rels2, vec![], hmin, hmax);
        s.reduce();
        let m = s.rows.len();
        let wellformed = s.gens.len() == m && s.q.len() >= m && s.rows.iter().all(|r| r.len() >= m) && s.q.iter().take(m).all(|r| r.len() >= m);
        let mut ds: Vec<i64> = vec![];
        let mut offdiag_zero = true;
        let mut q: Vec<Vec<i64>> = vec![];
        if wellformed {
            for i in 0..m {
                for j in 0..m {
                    if i != j && s.rows[i][j] != 0 {
                        offdiag_zero = false;
                    }
                }
                ds.push(s.rows[i][i].clamp(-1, 1 << 30) as i64);
            }
            for i in 0..m {
                q.push((0..m).map(|j| if ds[j] > 0 { s.q[i][j].rem_euclid(ds[j] as i128) as i64 } else { 0 }).collect());
            }
        }
        let removed: Vec<Value> = s.removed.iter().map(|(p, rel)| json!([p, rel.iter().map(|&(l, e)| json!([l, e.rem_euclid(h as i128) as i64])).collect::<Vec<_>>()])).collect();
        json!({"wellformed": wellformed, "hh": s.h.min(1 << 30) as u64, "ds": ds, "offdiag_zero": offdiag_zero, "gens": s.gens, "q": q, "removed": removed})
    });
    out.ev(match r {
        Ok(v) => merge(ev, v),
        Err(e) => merge(ev, e),
    });
}

// ---------------------------------------------------------------------------------------------
// Berlekamp-Massey on sequences with a known recurrence
// ---------------------------------------------------------------------------------------------

fn ev_bm(rng: &mut StdRng, out: &mut Out, idx: usize, l: usize, pkind: usize, skind: usize) {
    let p: u64 = match pkind % 4 {
        0 => 65537,
        1 => 2147483647,
        2 => loop {
            let c = rng.gen_range(1u64 << 40..1u64 << 41) | 1;
            if is_prime_u64(c) {
                break c;
            }
        },
        _ => loop {
            let c = rng.gen_range(1u64 << 61..1u64 << 62) | 1;
            if is_prime_u64(c) {
                break c;
            }
        },
    };
    let mm = |a: u64, b: u64| ((a as u128 * b as u128) % p as u128) as u64;
    let taps: Vec<u64> = (0..l).map(|j| if skind % 4 == 1 && j + 1 < l { 0 } else { rng.gen_range(1..p) }).collect();
    let mut s: Vec<u64> = (0..l)
        .map(|i| match skind % 4 {
            2 if i + 1 < l => 0, // impulse response 0,..,0,1
            2 => 1,
            3 => 1 + (i as u64 % 2),
            _ => rng.gen_range(0..p),
        })
        .collect();
    for i in l..2 * l {
        let mut v = 0u64;
        for j in 0..l {
            v = (v + mm(taps[j], s[i - 1 - j])) % p;
        }
        s.push(v);
    }
    if s.iter().filter(|&&v| v != 0).count() < 2 {
        return; // outside the routine's domain (it returns an empty vector by design)
    }
    let ev = json!({"op": "bm", "case": format!("bm{}", idx), "L": l, "pkind": pkind % 4, "skind": skind % 4, "p": du(p),
                    "seq": s.iter().map(|&v| du(v)).collect::<Vec<_>>(),
                    "taps": taps.iter().map(|&v| du(v)).collect::<Vec<_>>()});
    let ss = s.clone();
    let r = guard(move || berlekamp_massey(p, &ss));
    out.ev(match r {
        Ok(u) => merge(ev, json!({"u": u.iter().map(|&v| du(v)).collect::<Vec<_>>()})),
        Err(e) => merge(ev, e),
    });
}

// ---------------------------------------------------------------------------------------------



pub fn run(args: &Args) -> i32 {
    let seed = arg_u64(args, "seed", 1);
    let thorough = arg_str(args, "tier", "quick") == "thorough";
    let behs = read_ndjson(arg_str(args, "beh", "behaviours.ndjson"));
    let mut out = Out::create(arg_str(args, "out", "trace.ndjson"));
    let mut rng = rng_for(seed, "c19");
    // encoding self-test: the same numbers as decimal strings and as digits
    let t: i128 = -((1i128 << 100) + 12345);
    out.ev(json!({"op": "selftest", "case": "selftest", "a": di128(t), "b": du128(1u128 << 100), "c": 12345}));

    let shapes = read_ndjson(arg_str(args, "shapes", "shapes.ndjson"));
    let mats: Vec<&Value> = shapes.iter().filter(|s| s["kind"] == "mat").collect();
    let bms: Vec<&Value> = shapes.iter().filter(|s| s["kind"] == "bm").collect();
    for idx in 0..(if thorough { 1200 } else { 240 }) {
        ev_snf_hom(&mut rng, &mut out, idx);
    }
    let mut si = 0;
    for (bi, b) in behs.iter().enumerate() {
        let c = case_from(bi, b);
        // (a) the behaviour as generated by TLC, into every routine
        ev_det_dense(&c, &mut out);
        ev_det_sparse(&c, &mut rng, &mut out);
        ev_lattice(&c, &mut rng, &mut out, bi, true);
        ev_snf(&c, &mut rng, &mut out, bi + 2);
        // (b) the next variant shape on top of it (entries of the behaviour must leave room)
        if c.max_abs() > 5000 || mats.is_empty() {
            continue;
        }
        let sh = mats[si % mats.len()];
        si += 1;
        let kk = sh["kk"].as_u64().unwrap() as usize;
        let nbig = sh["nbig"].as_u64().unwrap() as usize;
        match sh["variant"].as_str().unwrap() {
            "ext" if kk >= c.k => {
                let e = extend(&c, &mut rng, kk, 3 * kk, 40000, "e");
                ev_det_dense(&e, &mut out);
                ev_det_sparse(&e, &mut rng, &mut out);
                ev_lattice(&e, &mut rng, &mut out, bi + 1, true);
                ev_snf(&e, &mut rng, &mut out, bi + 3);
                let g = scale_big(&e, &mut rng, nbig.min(kk), "s");
                ev_det_dense(&g, &mut out);
            }
            "dense" if kk >= c.k => {
                let e = extend(&c, &mut rng, kk, 40 * kk, 1000, "d");
                ev_det_dense(&e, &mut out);
                ev_det_sparse(&e, &mut rng, &mut out);
                ev_lattice(&e, &mut rng, &mut out, bi, false);
            }
            "big" => {
                let g = scale_big(&c, &mut rng, nbig.min(c.k), "s");
                ev_det_dense(&g, &mut out);
            }
            "wide" if kk >= c.k => {
                let e = extend(&c, &mut rng, kk, 4 * kk, 200, "w");
                ev_det_sparse(&e, &mut rng, &mut out);
                if kk <= 120 {
                    ev_det_dense(&e, &mut out);
                }
            }
            _ => {}
        }
    }
    // (c) index size classes: the behaviours above have small diagonals, so the lattice index stays small.  The
    //     elimination code switches arithmetic by the size of h (i128 / 256-bit paths around 2^63 / N), so a few
    //     presentations are built with h in chosen bit classes: a diagonal of 5 (8) moderate entries times ones,
    //     embedded in 12..16 generators and mixed by elementary operations (same bookkeeping as UniMat.tla).
    {
        let classes: &[(f64, f64, usize)] = &[(40.0, 41.0, 5), (61.5, 62.3, 5), (62.35, 62.98, 5), (63.02, 63.9, 5), (64.0, 66.0, 5), (100.0, 102.0, 8)];
        let per = if thorough { 6 } else { 2 };
        let mut ci = 0;
        for &(lo, hi, nd) in classes {
            // the class just below 2^63 is where a block of 8 products of residues can exceed an i128: more instances
            let per = if lo > 62.3 && hi < 63.0 { 5 * per } else { per };
            for _ in 0..per {
                // nd - 1 random entries of about (lo / nd) bits, the last one completes the product into [2^lo, 2^hi)
                let each = lo / nd as f64;
                let (diag, _h) = loop {
                    let mut d: Vec<i64> = (0..nd - 1).map(|_| { let b = 2f64.powf(each); rng.gen_range((b * 0.7) as i64..(b * 1.4) as i64).max(2) }).collect();
                    let prod: f64 = d.iter().map(|&x| x as f64).product();
                    let target = 2f64.powf(rng.gen_range(lo..hi));
                    let last = (target / prod).round() as i64;
                    if last < 2 || last >= (1 << 30) {
                        continue;
                    }
                    d.push(last);
                    let mut h: u128 = 1;
                    for &x in &d {
                        h *= x as u128;
                    }
                    let l2 = (h as f64).log2();
                    if l2 >= lo && l2 < hi {
                        break (d, h);
                    }
                };
                let k = diag.len();
                let m: Vec<Vec<i64>> = (0..k).map(|i| (0..k).map(|j| if i == j { diag[i] } else { 0 }).collect()).collect();
                let base = Case { id: format!("h{}", ci), variant: "base", k, m, x: vec![], xc: Some(vec![]), sign: 1,
                                  factors: diag.iter().map(|&x| x as i128).collect(), diag: diag.clone(), grp: true,
                                  src: json!({"native": "hclass", "lo": lo, "hi": hi}) };
                let kk = if lo > 62.3 && hi < 63.0 { 16 } else { [12usize, 16][ci % 2] };
                let e = extend(&base, &mut rng, kk, 3 * kk, 40000, "e");
                ev_lattice(&e, &mut rng, &mut out, ci, true);
                ev_snf(&e, &mut rng, &mut out, ci + 1);
                ci += 1;
            }
        }
    }
    // (d) random relation lattices: 16 x 16 matrices with small entries whose determinant (computed here by a
    //     fraction-free elimination over 512-bit integers; re-checked by the specification modulo two primes, a
    //     Witness) falls in a chosen bit class.  Their quotient is (nearly) cyclic, so after triangularisation most
    //     diagonal entries are 1 and the residues are as large as h - the regime of class group computations.
    {
        use bnum::types::I512;
        let bareiss = |m: &Vec<Vec<i64>>| -> I512 {
            let n = m.len();
            let mut a: Vec<Vec<I512>> = m.iter().map(|r| r.iter().map(|&x| I512::from(x)).collect()).collect();
            let (mut neg, mut prev) = (false, I512::ONE);
            for k in 0..n {
                if a[k][k] == I512::ZERO {
                    let Some(r) = (k + 1..n).find(|&r| a[r][k] != I512::ZERO) else { return I512::ZERO };
                    a.swap(k, r);
                    neg = !neg;
                }
                for i in k + 1..n {
                    for j in k + 1..n {
                        a[i][j] = (a[i][j] * a[k][k] - a[i][k] * a[k][j]) / prev;
                    }
                    a[i][k] = I512::ZERO;
                }
                prev = a[k][k];
            }
            if neg { -a[n - 1][n - 1] } else { a[n - 1][n - 1] }
        };
        let classes: &[(f64, f64, usize)] = &[(62.4, 63.0, if thorough { 30 } else { 10 }), (40.0, 44.0, 2), (63.0, 64.0, 2), (70.0, 75.0, 2)];
        let mut ci = 0;
        for &(lo, hi, cnt) in classes {
            let mut got = 0;
            let mut tries = 0;
            // entry range tuned to the class: log2 |det| ~ 22 + 16 log2(sigma)
            let r: i64 = (2f64.powf((lo + 0.3 - 22.0) / 16.0) * 1.75).round().max(1.0) as i64;
            while got < cnt && tries < 20000 {
                tries += 1;
                let m: Vec<Vec<i64>> = (0..16).map(|_| (0..16).map(|_| rng.gen_range(-r..=r)).collect()).collect();
                let d = bareiss(&m);
                if d == I512::ZERO {
                    continue;
                }
                let mag = d.unsigned_abs();
                let l2 = mag.bits() as f64 - 1.0 + ((mag >> (mag.bits().saturating_sub(53))).to_string().parse::<f64>().unwrap()
                    / 2f64.powi(mag.bits().min(53) as i32 - 1)).log2();
                if !(l2 >= lo && l2 < hi) || mag.bits() > 100 {
                    continue;
                }
                let h: i128 = mag.to_string().parse::<i128>().unwrap();
                let c = Case { id: format!("r{}", ci), variant: "base", k: 16, m, x: vec![], xc: Some(vec![]),
                               sign: if d.is_negative() { -1 } else { 1 }, factors: vec![h], diag: vec![], grp: false,
                               src: json!({"native": "randlattice", "lo": lo, "hi": hi}) };
                ev_lattice(&c, &mut rng, &mut out, ci, true);
                ev_snf(&c, &mut rng, &mut out, ci + 1);
                got += 1;
                ci += 1;
            }
        }
    }
    // (e) structured sparse matrices: weighted cyclic shifts (generalised n-cycle permutation matrices,
    //     M e_i = w_i e_(i+1 mod n)): det = (-1)^(n-1) * prod w_i by construction.  Their Krylov sequences have long
    //     runs of zeros, so the Euclidean steps of Berlekamp-Massey take quotients of degree >= 2.
    {
        let dims: Vec<usize> = if thorough { (8..=24).collect() } else { vec![8, 9, 12, 15, 22] };
        for (ci, &n) in dims.iter().enumerate() {
            for variant in 0..4 {
                // variants: both orientations of the shift x (all weights 1 except the last = c | mixed small weights)
                let w: Vec<i64> = (0..n).map(|i| if variant < 2 { if i == n - 1 { [1i64, -1, 7, -5, 1000][ci % 5] } else { 1 } }
                                                 else { [1i64, -1, 2, 3, -2][(i * 7 + ci) % 5] }).collect();
                let mut m = vec![vec![0i64; n]; n];
                for i in 0..n {
                    if variant % 2 == 0 {
                        m[i][(i + 1) % n] = w[i];
                    } else {
                        m[(i + 1) % n][i] = w[i];
                    }
                }
                let sign = if (n - 1) % 2 == 0 { 1 } else { -1 };
                let c = Case { id: format!("cyc{}v{}", n, variant), variant: "base", k: n, m, x: vec![], xc: Some(vec![]), sign,
                               factors: w.iter().map(|&x| x as i128).collect(), diag: vec![], grp: false,
                               src: json!({"native": "cyclic-shift", "n": n}) };
                ev_det_sparse(&c, &mut rng, &mut out);
                ev_det_dense(&c, &mut out);
            }
        }
    }
    // Berlekamp-Massey on sequences with a known recurrence
    let reps = if thorough { 3 } else { 1 };
    let mut idx = 0;
    for sh in &bms {
        for _ in 0..reps {
            ev_bm(&mut rng, &mut out, idx, sh["L"].as_u64().unwrap() as usize, sh["pkind"].as_u64().unwrap() as usize, sh["skind"].as_u64().unwrap() as usize);
            idx += 1;
        }
    }
    let _ = (I4096::ZERO, U256::ZERO, BInt::<4>::ZERO, BUint::<4>::ZERO, u64::cast_from(0u32));
    out.finish();
    0
}
