//! `ymqv cls`: the class-group sieve's concurrent protocol and the `ymcls` command line (C18 stage "cls-proto").
//!
//! --mode proto (default)
//!   `classgroup::classgroup` on seeded negative fundamental discriminants of 20..64 bits (D = 1 mod 4 and D = 0 mod 4)
//!   without a pool (the baseline of the input) and with pools of 1, 2, 4, 8 threads under the scheduling
//!   perturbation hook (`sched_point` callbacks: seeded random yields/sleeps, a writer gate, a task gate), plus runs
//!   whose abort predicate flips at a given poll index.  One trace line per run (`op:"run"`): the hook events of
//!   src/classgroup.rs / src/relationcls.rs in compact integer form (`evs`, see `compact`), and what came back.  Runs
//!   of one discriminant form a group (`case`) that starts with an `op:"input"` line.  A panic or a hang (no progress
//!   event for `--idle` seconds) is an outcome.  Nothing is judged here: ClsProtoTrace.tla decides.
//!
//! --mode cli --bin <ymcls> --shapes <ndjson of ClsCliShapes.tla>
//!   runs the real `ymcls` program built from the tree under test once per invocation class and records what it did
//!   (status, stdout, files of OUTPUTDIR) for ClsCliTrace.tla.
use std::collections::{BTreeMap, BTreeSet};
use std::io::Read;
use std::path::PathBuf;
use std::process::{Command, Stdio};
use std::str::FromStr;
use std::sync::atomic::{AtomicU64, AtomicUsize, Ordering};
use std::sync::{mpsc, Arc, Mutex};
use std::time::{Duration, Instant};

use rand::rngs::StdRng;
use rand::{Rng, SeedableRng};
use serde_json::{json, Value};

use yamaquasi::relationcls::ClassGroup;
use yamaquasi::{classgroup, Int, Preferences, Verbosity};

use crate::gen::{is_prime_u64, rand_bits, rng_for, Uint};
use crate::trace::*;

// ------------------------------------------------------------------------------------------------
// panics of any thread; progress counter of the watchdog
// ------------------------------------------------------------------------------------------------

static PANICS: Mutex<Vec<(String, String)>> = Mutex::new(Vec::new());
static PROGRESS: AtomicU64 = AtomicU64::new(0);

fn install_global_panic_hook() {
    std::panic::set_hook(Box::new(|info| {
        let msg = if let Some(s) = info.payload().downcast_ref::<&str>() {
            s.to_string()
        } else if let Some(s) = info.payload().downcast_ref::<String>() {
            s.clone()
        } else {
            "?".to_string()
        };
        let loc = info.location().map(|l| format!("{}:{}", l.file(), l.line())).unwrap_or_default();
        PANICS.lock().unwrap_or_else(|e| e.into_inner()).push((msg, loc));
    }));
}

fn take_panic() -> Value {
    let mut g = PANICS.lock().unwrap_or_else(|e| e.into_inner());
    let (mut msg, loc) = if g.is_empty() { Default::default() } else { g[0].clone() };
    let all: Vec<String> = g.iter().map(|x| x.0.chars().take(80).collect()).collect();
    let count = g.len();
    g.clear();
    msg.truncate(200);
    let loc = match loc.find("src/") {
        Some(i) => loc[i..].to_string(),
        None => loc,
    };
    // file of the first panic without the line number (hooks shift lines)
    let file = loc.split(':').next().unwrap_or("").to_string();
    let poisoned = all.iter().any(|m| m.contains("PoisonError"));
    json!({"outcome": "panic", "msg": msg, "loc": loc, "file": file, "panics": count, "poisoned": poisoned})
}

// ------------------------------------------------------------------------------------------------
// schedule perturbation
// ------------------------------------------------------------------------------------------------

thread_local! {
    static TRNG: std::cell::RefCell<Option<(u64, StdRng)>> = std::cell::RefCell::new(None);
}

fn with_rng<T>(seed: u64, f: impl FnOnce(&mut StdRng) -> T) -> T {
    TRNG.with(|c| {
        let mut c = c.borrow_mut();
        if c.as_ref().map(|x| x.0) != Some(seed) {
            let t = yamaquasi::verif::tid() as u64;
            *c = Some((seed, StdRng::seed_from_u64(seed.wrapping_mul(0x9e3779b97f4a7c15) ^ (t << 32) ^ 0xc15)));
        }
        f(&mut c.as_mut().unwrap().1)
    })
}

fn wait_until(cond: impl Fn() -> bool, timeout: Duration) -> bool {
    let t0 = Instant::now();
    while !cond() {
        if t0.elapsed() > timeout {
            return false; // release on timeout: a gate never creates a hang
        }
        std::thread::sleep(Duration::from_micros(50));
    }
    true
}

/// kinds: none | rand | wgate (a writer about to take the lock is held until k readers passed) |
/// taskgate (a pool worker between its completion check and the start of its unit is held until another thread
/// stores `done`: it then starts a unit although the sieve is over) | lategate (a writer is held until another
/// thread stores `done`: an insertion after completion)
fn install_pert(kind: &str, seed: u64) -> Arc<[AtomicUsize; 2]> {
    let stats: Arc<[AtomicUsize; 2]> = Arc::new([AtomicUsize::new(0), AtomicUsize::new(0)]);
    let st = stats.clone();
    let kind = kind.to_string();
    let done_store = AtomicUsize::new(0);
    let readers = AtomicUsize::new(0);
    let holds = AtomicUsize::new(0);
    yamaquasi::verif::set_sched(Some(Box::new(move |id: &'static str| {
        PROGRESS.fetch_add(1, Ordering::Relaxed);
        if !id.starts_with("cls.") {
            return;
        }
        if id == "cls.done.store" {
            done_store.fetch_add(1, Ordering::SeqCst);
        }
        if id == "cls.block.lock" || id == "cls.pdone.lock" {
            readers.fetch_add(1, Ordering::SeqCst);
        }
        match kind.as_str() {
            "rand" => {
                let r: u32 = with_rng(seed, |r| r.gen_range(0..1000));
                let heavy = seed % 3 == 0;
                if r < 150 {
                    std::thread::yield_now();
                } else if r < (if heavy { 300 } else { 180 }) {
                    let us = with_rng(seed, |r| r.gen_range(1..200));
                    std::thread::sleep(Duration::from_micros(us));
                } else if r < (if heavy { 306 } else { 182 }) {
                    let us = with_rng(seed, |r| r.gen_range(500..3000));
                    std::thread::sleep(Duration::from_micros(us));
                }
            }
            "wgate" => {
                if id == "cls.w.lock" {
                    let r: u32 = with_rng(seed, |r| r.gen_range(0..100));
                    if r < 10 && holds.fetch_add(1, Ordering::SeqCst) < 40 {
                        let r0 = readers.load(Ordering::SeqCst);
                        let k = 1 + (seed % 3) as usize;
                        st[0].fetch_add(1, Ordering::Relaxed);
                        if wait_until(|| readers.load(Ordering::SeqCst) >= r0 + k, Duration::from_millis(3)) {
                            st[1].fetch_add(1, Ordering::Relaxed);
                        }
                    }
                }
            }
            "taskgate" => {
                if id == "cls.task.done" && holds.fetch_add(1, Ordering::SeqCst) < 4 {
                    let d0 = done_store.load(Ordering::SeqCst);
                    st[0].fetch_add(1, Ordering::Relaxed);
                    if wait_until(|| done_store.load(Ordering::SeqCst) > d0, Duration::from_millis(150)) {
                        st[1].fetch_add(1, Ordering::Relaxed);
                    }
                }
            }
            "lategate" => {
                if id == "cls.w.lock" {
                    let r: u32 = with_rng(seed, |r| r.gen_range(0..100));
                    if r < 3 && holds.fetch_add(1, Ordering::SeqCst) < 3 {
                        let d0 = done_store.load(Ordering::SeqCst);
                        st[0].fetch_add(1, Ordering::Relaxed);
                        if wait_until(|| done_store.load(Ordering::SeqCst) > d0, Duration::from_millis(150)) {
                            st[1].fetch_add(1, Ordering::Relaxed);
                            std::thread::sleep(Duration::from_micros(300));
                        }
                    }
                }
            }
            _ => {}
        }
    })));
    stats
}

// ------------------------------------------------------------------------------------------------
// one guarded run
// ------------------------------------------------------------------------------------------------

struct ClsRun {
    g: Result<Option<ClassGroup>, Value>,
    raw: Vec<String>,
    hung: bool,
    wall_ms: f64,
    polls: usize,
}

/// classgroup(-n) in its own thread with the event sink on.  threads = None: no pool.  abort_at >= 0: the abort
/// predicate returns true from its abort_at-th call on.  A hang = no progress event for idle_s seconds.
fn run_cls(n: Uint, threads: Option<usize>, dbl: bool, abort_at: i64, idle_s: f64) -> ClsRun {
    PANICS.lock().unwrap_or_else(|e| e.into_inner()).clear();
    let (tx, rx) = mpsc::channel();
    let polls = Arc::new(AtomicUsize::new(0));
    let polls2 = polls.clone();
    yamaquasi::verif::start();
    let t0 = Instant::now();
    let h = std::thread::Builder::new()
        .stack_size(64 << 20)
        .spawn(move || {
            let d = -Int::from_bits(n);
            let mut prefs = Preferences::default();
            prefs.verbosity = Verbosity::Silent;
            if dbl {
                prefs.use_double = Some(true);
            }
            prefs.threads = threads;
            prefs.should_abort = Some(Box::new(move || {
                let idx = polls2.fetch_add(1, Ordering::SeqCst);
                PROGRESS.fetch_add(1, Ordering::Relaxed);
                let res = abort_at >= 0 && idx as i64 >= abort_at;
                yamaquasi::verif::ev(|| format!("\"op\":\"poll\",\"idx\":{},\"res\":{}", idx, res));
                res
            }));
            let tpool = threads.map(|t| rayon::ThreadPoolBuilder::new().num_threads(t).build().expect("cannot create thread pool"));
            yamaquasi::verif::ev(|| format!("\"op\":\"call\""));
            let r = std::panic::catch_unwind(std::panic::AssertUnwindSafe(|| classgroup::classgroup(&d, &prefs, tpool.as_ref())));
            yamaquasi::verif::ev(|| format!("\"op\":\"returned\""));
            let _ = tx.send(r.map_err(|_| ()));
            drop(tpool);
        })
        .expect("spawn");
    let mut last = PROGRESS.load(Ordering::Relaxed);
    let mut last_t = Instant::now();
    let res = loop {
        match rx.recv_timeout(Duration::from_millis(100)) {
            Ok(r) => break Some(r),
            Err(mpsc::RecvTimeoutError::Timeout) => {
                let p = PROGRESS.load(Ordering::Relaxed);
                if p != last {
                    last = p;
                    last_t = Instant::now();
                } else if last_t.elapsed().as_secs_f64() > idle_s {
                    break None;
                }
            }
            Err(_) => break Some(Err(())),
        }
    };
    let wall_ms = t0.elapsed().as_secs_f64() * 1e3;
    let (g, hung) = match res {
        Some(Ok(g)) => {
            let _ = h.join();
            (Ok(g), false)
        }
        Some(Err(())) => {
            let _ = h.join();
            (Err(take_panic()), false)
        }
        None => (Err(json!({"outcome": "timeout", "idle_s": idle_s, "msg": "", "loc": "", "file": "", "poisoned": false})), true),
    };
    let raw = yamaquasi::verif::stop();
    yamaquasi::verif::set_sched(None);
    ClsRun { g, raw, hung, wall_ms, polls: polls.load(Ordering::SeqCst) }
}

// ------------------------------------------------------------------------------------------------
// event compaction
// ------------------------------------------------------------------------------------------------

fn op_of(s: &str) -> &str {
    match s.find("\"op\":\"") {
        Some(i) => {
            let r = &s[i + 6..];
            &r[..r.find('"').unwrap_or(0)]
        }
        None => "",
    }
}

/// integer or boolean field of a raw event line (capped below 2^31)
fn fu(s: &str, key: &str) -> i64 {
    let pat = format!("\"{}\":", key);
    match s.find(&pat) {
        Some(i) => {
            let r = &s[i + pat.len()..];
            if r.starts_with("true") {
                1
            } else if r.starts_with("false") || r.starts_with("null") {
                0
            } else if r.starts_with('[') {
                // [p,e]: the prime
                r[1..].chars().take_while(|c| c.is_ascii_digit()).collect::<String>().parse::<i64>().unwrap_or(0).min(2_000_000_000)
            } else {
                r.chars().take_while(|c| c.is_ascii_digit()).collect::<String>().parse::<i64>().unwrap_or(0).min(2_000_000_000)
            }
        }
        None => 0,
    }
}

fn site(s: &str) -> i64 {
    if s.contains("\"site\":\"par\"") || s.contains("\"site\":\"block\"") {
        1
    } else {
        2
    }
}

/// Compact integer form [code, tid, a, b, c] of the hook events of one run, in log order:
///  1 c_stage(par, tasks, target)   3 c_task(site 1 par 2 seq, done)   4 c_task_skip   5 c_pre_poll(done)   6 poll(idx, res)
///  7 c_unit_start   8 c_unit_end   9 c_unit_interrupt(idx)   10 c_poly(idx)   11 c_r_done(site 1 block 2 poly, v, len)
/// 12 c_block_break   13 c_loop_exit   14 c_st_done   15 cls_rel(l1, l2)   16 c_w_req   17 c_w_acq   18 c_store_add(l1, l2, maxlarge)
/// 19 c_emit(clen, l1, l2)   20 c_add(len, em, done)   21 c_smooth_break   22 c_join(done, polys)   23 c_ret_none
/// 24 c_final_len(len, target, em)   25 c_result(n)   26 c_linalg(n)   27 call   28 returned
fn compact(raw: &[String]) -> (Vec<Value>, BTreeMap<String, usize>) {
    let mut out = Vec::with_capacity(raw.len());
    let mut counts: BTreeMap<String, usize> = BTreeMap::new();
    for s in raw {
        let op = op_of(s);
        let tid = fu(s, "tid");
        let t = |c: i64, a: i64, b: i64, d: i64| json!([c, tid, a, b, d]);
        let v = match op {
            "c_stage" => t(1, fu(s, "par"), fu(s, "tasks"), fu(s, "target")),
            "c_task" => t(3, site(s), fu(s, "done"), 0),
            "c_task_skip" => t(4, 0, 0, 0),
            "c_pre_poll" => t(5, fu(s, "done"), 0, 0),
            "poll" => t(6, fu(s, "idx"), fu(s, "res"), 0),
            "c_unit_start" => t(7, 0, 0, 0),
            "c_unit_end" => t(8, 0, 0, 0),
            "c_unit_interrupt" => t(9, fu(s, "idx"), 0, 0),
            "c_poly" => t(10, fu(s, "idx"), 0, 0),
            "c_r_done" => t(11, site(s), fu(s, "v"), fu(s, "len")),
            "c_block_break" => t(12, 0, 0, 0),
            "c_loop_exit" => t(13, 0, 0, 0),
            "c_st_done" => t(14, 0, 0, 0),
            "cls_rel" => t(15, fu(s, "l1"), fu(s, "l2"), 0),
            "c_w_req" => t(16, 0, 0, 0),
            "c_w_acq" => t(17, 0, 0, 0),
            "c_store_add" => t(18, fu(s, "l1"), fu(s, "l2"), fu(s, "maxlarge")),
            "c_emit" => t(19, fu(s, "clen"), fu(s, "l1"), fu(s, "l2")),
            "c_add" => t(20, fu(s, "len"), fu(s, "em"), fu(s, "done")),
            "c_smooth_break" => t(21, 0, 0, 0),
            "c_join" => t(22, fu(s, "done"), fu(s, "polys"), 0),
            "c_ret_none" => t(23, 0, 0, 0),
            "c_final_len" => t(24, fu(s, "len"), fu(s, "target"), fu(s, "em")),
            "c_result" => t(25, fu(s, "n"), 0, 0),
            "c_linalg" => t(26, fu(s, "n"), 0, 0),
            "call" => t(27, 0, 0, 0),
            "returned" => t(28, 0, 0, 0),
            _ => continue,
        };
        *counts.entry(op.to_string()).or_insert(0) += 1;
        out.push(v);
    }
    (out, counts)
}

/// Whether ClsProtoTrace.tla replays the store mutations of this run through CRelStoreFn!AddF (the model sorts
/// neighbour sets by enumeration, so the replay is scheduled only for runs whose large-prime graph has small
/// degrees, few insertions and primes below 2^31); otherwise only the counters are followed.
fn store_replayable(evs: &[Value], max_adds: usize) -> bool {
    let mut nb: BTreeMap<i64, BTreeSet<i64>> = BTreeMap::new();
    let mut adds = 0;
    for e in evs {
        if e[0] == 18 {
            adds += 1;
            let (a, b) = (e[2].as_i64().unwrap(), e[3].as_i64().unwrap());
            if a >= 2_000_000_000 || b >= 2_000_000_000 {
                return false;
            }
            if a != 0 && b != 0 {
                nb.entry(a).or_default().insert(b);
                nb.entry(b).or_default().insert(a);
            } else if a != 0 {
                nb.entry(a).or_default().insert(1);
            }
        }
    }
    adds <= max_adds && nb.values().all(|s| s.len() <= 5)
}

// ------------------------------------------------------------------------------------------------
// inputs
// ------------------------------------------------------------------------------------------------

fn factor_small(mut m: u64) -> Vec<u64> {
    let mut res = vec![];
    let mut p = 2u64;
    while p * p <= m {
        while m % p == 0 {
            res.push(p);
            m /= p;
        }
        p += if p == 2 { 1 } else { 2 };
    }
    if m > 1 {
        res.push(m);
    }
    res
}

/// |D| of `bits` bits in the class (7mod8, 3mod8: D = 1 mod 4; 4m1, 4m2: D = 0 mod 4), fundamental by construction:
/// (1 | 4 | 8) times a product of distinct odd primes (returned)
fn gen_disc(rng: &mut StdRng, bits: u32, cls: &str) -> (u64, Vec<u64>) {
    let (pre, prebits): (u64, u32) = match cls {
        "7mod8" | "3mod8" => (1, 0),
        "4m1" => (4, 2),
        _ => (8, 3),
    };
    let ob = bits - prebits;
    loop {
        let odd: u64;
        let facs: Vec<u64>;
        if ob <= 36 {
            let m = rand_bits(rng, ob).digits()[0] | 1;
            let f = factor_small(m);
            if f.windows(2).any(|w| w[0] == w[1]) {
                continue;
            }
            odd = m;
            facs = f;
        } else {
            let b1 = rng.gen_range(10..=ob / 2);
            let p = loop {
                let x = rand_bits(rng, b1).digits()[0] | 1;
                if is_prime_u64(x) {
                    break x;
                }
            };
            let q = loop {
                let x = rand_bits(rng, ob - b1 + 1).digits()[0] | 1;
                if is_prime_u64(x) && x != p {
                    break x;
                }
            };
            let Some(m) = p.checked_mul(q) else { continue };
            odd = m;
            facs = vec![p.min(q), p.max(q)];
        }
        if 64 - odd.leading_zeros() != ob {
            continue;
        }
        let ok = match cls {
            "7mod8" => odd % 8 == 7,
            "3mod8" => odd % 8 == 3,
            "4m1" => odd % 4 == 1,
            _ => true,
        };
        if !ok {
            continue;
        }
        let Some(n) = odd.checked_mul(pre) else { continue };
        if 64 - n.leading_zeros() != bits {
            continue;
        }
        return (n, facs);
    }
}

fn group_fields(g: &ClassGroup) -> Value {
    json!({"ret": "group", "h": dn(&g.h), "hd": g.h.to_string(),
           "inv": g.invariants.iter().map(|&x| du128(x)).collect::<Vec<_>>(),
           "invd": g.invariants.iter().map(|x| x.to_string()).collect::<Vec<_>>()})
}

fn run_proto(args: &Args) -> i32 {
    install_global_panic_hook();
    let seed = arg_u64(args, "seed", 1);
    let thorough = arg_str(args, "tier", "quick") == "thorough";
    let shard = arg_u64(args, "shard", 0) as usize;
    let nshards = arg_u64(args, "nshards", 1).max(1) as usize;
    let idle_s = arg_u64(args, "idle", 60) as f64;
    let count_bound = arg_u64(args, "count-bound", 10_000_000);
    let max_adds = arg_u64(args, "max-adds", 1200) as usize;
    let only = args.get("only").cloned();
    let mut out = Out::create(arg_str(args, "out", "cls.ndjson"));
    let mut rng = rng_for(seed, "cls-plan");
    let classes = ["7mod8", "4m1", "3mod8", "4m2"];
    // (bits, how many): contention needs several A values (33..64 bits: 8 values of A with 2 polynomials each);
    // below 33 bits there is one unit polynomial (a pool has one busy worker)
    let mut sizes: Vec<u32> = vec![20, 28, 34, 40, 44, 48, 56, 60, 64];
    if thorough {
        sizes.extend([16, 24, 32, 33, 35, 36, 38, 42, 46, 50, 52, 54, 58, 62, 63, 64, 64, 37, 41, 45]);
    }
    let mut stop = false;
    for (ii, &bits) in sizes.iter().enumerate() {
        let cls = classes[(ii + seed as usize) % 4];
        let (n, facs) = gen_disc(&mut rng, bits, cls);
        let plan_seed: u64 = rng.gen();
        if ii % nshards != shard || stop {
            continue;
        }
        let case = format!("cls/{}/{}/{}-s{}", bits, cls, ii, seed);
        if let Some(o) = &only {
            if *o != case {
                continue;
            }
        }
        let mut prng = StdRng::seed_from_u64(plan_seed);
        let nu = Uint::from(n);
        let mut inp = json!({"op": "input", "case": case, "dd": format!("-{}", n), "d": dn(&nu), "bits": bits, "cls": cls,
                             "facs": facs.iter().map(|&p| du(p)).collect::<Vec<_>>(), "facsd": facs.iter().map(|p| p.to_string()).collect::<Vec<_>>(),
                             "pre": n / facs.iter().product::<u64>()});
        if n <= count_bound && n < (1 << 30) {
            inp["n"] = json!(n);
        }
        out.ev(inp);
        // (threads, double large primes, perturbation, abort at poll index)
        let mut todo: Vec<(Option<usize>, bool, &str, i64)> = vec![(None, false, "none", -1)];
        let tlist: &[usize] = &[1, 2, 4, 8];
        let reps = if thorough { 4 } else { 1 };
        for _ in 0..reps {
            for &t in tlist {
                let kind = if t == 1 { "rand" } else { ["rand", "rand", "wgate", "taskgate", "lategate"][prng.gen_range(0..5)] };
                todo.push((Some(t), false, kind, -1));
            }
        }
        if bits > 32 {
            todo.push((Some(3), false, "taskgate", -1));
            todo.push((Some(2), false, "lategate", -1));
        }
        if n % 2 == 1 || thorough {
            // double large primes (off by default at these sizes): own baseline
            todo.push((None, true, "none", -1));
            todo.push((Some(4), true, "rand", -1));
            todo.push((Some(2), true, "wgate", -1));
        }
        // abort predicate flipping at a poll index (0 = before the first unit)
        todo.push((Some(2), false, "rand", prng.gen_range(0..3)));
        todo.push((None, false, "none", prng.gen_range(0..2)));
        if thorough {
            for k in [0i64, 1, 2, 4, 7] {
                todo.push((Some(4), false, "rand", k));
            }
        }
        for (runno, (t, dbl, kind, abort_at)) in todo.into_iter().enumerate() {
            let pseed = (prng.gen::<u32>() >> 1) as u64;
            let tn = t.map(|x| x as i64).unwrap_or(0);
            let run = format!("{}/t{}{}/{}{}{}#{}", case, tn, if dbl { "d" } else { "" }, kind, pseed,
                              if abort_at >= 0 { format!("/abort{}", abort_at) } else { String::new() }, runno);
            let base = t.is_none() && abort_at < 0;
            let bkey = if dbl { "dbl" } else { "def" };
            let head = json!({"case": case, "run": run, "dd": format!("-{}", n), "threads": tn, "base": base, "bkey": bkey,
                              "pert": kind, "pseed": pseed, "abort_at": abort_at, "bits": bits});
            out.ev2(head.clone(), json!({"op": "begin"}));
            out.flush();
            let stats = install_pert(kind, pseed);
            let r = run_cls(nu, t, dbl, abort_at, idle_s);
            let (evs, counts) = compact(&r.raw);
            let replay = store_replayable(&evs, max_adds);
            let mut e = json!({"op": "run", "evs": evs, "counts": counts, "raw_events": r.raw.len(), "polls": r.polls,
                               "store_replay": replay, "gate_holds": stats[0].load(Ordering::Relaxed),
                               "gate_released": stats[1].load(Ordering::Relaxed), "wall_ms": (r.wall_ms * 10.0).round() / 10.0});
            let of = match &r.g {
                Ok(Some(g)) => group_fields(g),
                Ok(None) => json!({"ret": "none"}),
                Err(v) => {
                    let mut v = v.clone();
                    v["ret"] = json!(v["outcome"].as_str().unwrap_or("panic"));
                    v
                }
            };
            for (k, v) in of.as_object().unwrap() {
                e[k] = v.clone();
            }
            out.ev2(head, e);
            out.flush();
            if r.hung {
                stop = true; // the abandoned thread keeps writing into the process-wide sink: stop this process
                break;
            }
        }
    }
    out.finish();
    0
}

// ------------------------------------------------------------------------------------------------
// the ymcls program
// ------------------------------------------------------------------------------------------------

const VERBS: [&str; 8] = ["silent", "info", "verbose", "debug", "0", "1", "2", "3"];

struct Inv {
    case: String,
    shape: Value,
    argv: Vec<String>,
    cls: Value,
    n: Option<u64>, // |D| when the argument is a readable fundamental discriminant below 2^63
    outdir: Option<PathBuf>,
}

fn build_invs(shapes: &[Value], seed: u64, scratch: &PathBuf) -> Vec<Inv> {
    let mut v = vec![];
    for (si, sh) in shapes.iter().enumerate() {
        let mut rng = rng_for(seed, &format!("clscli/{}", si));
        let s = |k: &str| sh[k].as_str().unwrap_or("").to_string();
        let bits = sh["bits"].as_u64().unwrap_or(0) as u32;
        let num = s("num");
        let sign = s("sign"); // "-" | "" (positive: ymcls negates it)
        let mut n: Option<u64> = None;
        // text of the DISCRIMINANT argument, num class, size class, residue class
        let (text, numcls, sizecls, rescls): (String, &str, &str, &str) = match num.as_str() {
            "fund1" | "fund0" => {
                let cls = if num == "fund1" { ["7mod8", "3mod8"][rng.gen_range(0..2)] } else { ["4m1", "4m2"][rng.gen_range(0..2)] };
                let (x, _) = gen_disc(&mut rng, bits, cls);
                n = Some(x);
                (format!("{}{}", sign, x), "dec", "le512", "ok")
            }
            "lead_zeros" => {
                let (x, _) = gen_disc(&mut rng, bits, "7mod8");
                n = Some(x);
                (format!("{}000{}", sign, x), "dec", "le512", "ok")
            }
            // D = 2, 3 mod 4: |D| = 2, 1 mod 4
            "res2" | "res3" => {
                let x = (rand_bits(&mut rng, bits).digits()[0] & !3) | (if num == "res2" { 2 } else { 1 }) | (1 << (bits - 1));
                (format!("{}{}", sign, x), "dec", "le512", "bad")
            }
            "over" if bits > 1023 => {
                let k = (bits as f64 * 0.30103).ceil() as usize + 1;
                let mut t = String::from("1");
                for _ in 0..k {
                    t.push(char::from(b'0' + rng.gen_range(0..10u8)));
                }
                t.push_str("00");
                (format!("{}{}", sign, t), "dec", "gt1024", "ok")
            }
            "over" => {
                // a decimal of exactly `bits` bits, = 0 mod 4 (so that only the size can refuse it when <= 1024 bits)
                let x = (rand_bits(&mut rng, bits) >> 2) << 2;
                let x = x | (Uint::ONE << (bits - 1));
                (format!("{}{}", sign, x), "dec", if bits > 1023 { "gt1024" } else { "gt512" }, "ok")
            }
            "huge" => {
                let k = (bits as f64 * 0.30103).ceil() as usize + 1;
                let mut t = String::from("1");
                for _ in 0..k {
                    t.push(char::from(b'0' + rng.gen_range(0..10u8)));
                }
                (format!("{}{}", sign, t), "dec", "gt1024", "ok")
            }
            "empty" => (String::new(), "garbage", "le512", "ok"),
            "letters" => ("-1234abc".into(), "garbage", "le512", "ok"),
            "hex" => ("-0x1f".into(), "garbage", "le512", "ok"),
            "float" => ("-1e3".into(), "garbage", "le512", "ok"),
            "trailing" => ("-23 ".into(), "garbage", "le512", "ok"),
            "doubleminus" => ("--23".into(), "garbage", "le512", "ok"),
            "unicode" => ("-\u{ff12}\u{ff13}".into(), "garbage", "le512", "ok"),
            x => panic!("unknown number shape {}", x),
        };
        let verbose = s("verbose");
        let threads = sh["threads"].as_u64().unwrap_or(0);
        let orphans = sh["orphans"].as_u64().unwrap_or(1);
        let extra = s("extra");
        let od = s("outdir"); // "" none | "fresh" | "exists" | "nested" | "underfile"
        let mut argv: Vec<String> = vec![];
        if !verbose.is_empty() {
            argv.extend(["--verbose".to_string(), verbose.clone()]);
        }
        if threads > 0 {
            argv.extend(["--threads".to_string(), threads.to_string()]);
        }
        match extra.as_str() {
            "" | "help" => {}
            "dbl_true" => argv.extend(["--use-double".to_string(), "true".to_string()]),
            "large_8" => argv.extend(["--large".to_string(), "8".to_string()]),
            "fb_60" => argv.extend(["--fb".to_string(), "60".to_string()]),
            "threads_bogus" => argv.extend(["--threads".to_string(), "many".to_string()]),
            x => panic!("unknown extra {}", x),
        }
        let mut outdir = None;
        if orphans >= 1 {
            argv.push(text.clone());
        }
        if orphans >= 2 {
            let base = scratch.join(format!("cli{}", si));
            let _ = std::fs::remove_dir_all(&base);
            let _ = std::fs::remove_file(&base);
            let dir = match od.as_str() {
                "exists" => {
                    std::fs::create_dir_all(&base).unwrap();
                    base.clone()
                }
                "nested" => base.join("a").join("b"),
                "underfile" => {
                    std::fs::write(&base, b"x").unwrap();
                    base.join("sub")
                }
                _ => base.clone(),
            };
            argv.push(dir.to_string_lossy().to_string());
            outdir = Some(dir);
        }
        for _ in 2..orphans {
            argv.push("17".into());
        }
        if extra == "help" {
            argv.push("--help".into());
        }
        let cls = json!({
            "orphans": orphans, "help": extra == "help", "num": numcls, "size": sizecls, "res": rescls,
            "verb": if verbose.is_empty() || VERBS.contains(&verbose.as_str()) { "ok" } else { "bogus" },
            "outdir": if orphans < 2 { "none" } else if od == "underfile" { "bad" } else { "ok" },
        });
        v.push(Inv { case: format!("clscli/{}", si), shape: sh.clone(), argv, cls, n, outdir });
    }
    v
}

fn panic_info(stderr: &str) -> (String, String) {
    if let Some(i) = stderr.find("panicked at ") {
        let rest = &stderr[i + 12..];
        let line = rest.lines().next().unwrap_or("");
        let file = line.split(':').next().unwrap_or("").trim().to_string();
        let msg: String = rest.lines().skip(1).take(2).collect::<Vec<_>>().join(" ");
        if file.starts_with('\'') {
            let f = line.rsplit(", ").next().unwrap_or("").split(':').next().unwrap_or("").to_string();
            return (f, line.to_string());
        }
        return (file, msg);
    }
    (String::new(), String::new())
}

fn run_one_cli(bin: &str, inv: &Inv, deadline: f64, libh: &BTreeMap<u64, String>) -> Value {
    let mut ev = json!({"op": "clscli", "case": inv.case, "shape": inv.shape, "argv": inv.argv, "cls": inv.cls});
    if let Some(n) = inv.n {
        ev["nd"] = json!(format!("-{}", n));
        if n <= 10_000_000 {
            ev["n"] = json!(n);
        }
        if let Some(h) = libh.get(&n) {
            ev["libh"] = dn(&Uint::from_str(h).unwrap());
            ev["libhd"] = json!(h);
        }
    }
    let mut child = Command::new(bin)
        .args(&inv.argv)
        .env("RUST_BACKTRACE", "0")
        .stdin(Stdio::null())
        .stdout(Stdio::piped())
        .stderr(Stdio::piped())
        .spawn()
        .unwrap_or_else(|e| panic!("cannot run {}: {}", bin, e));
    let mut so = child.stdout.take().unwrap();
    let mut se = child.stderr.take().unwrap();
    let t1 = std::thread::spawn(move || {
        let mut s = Vec::new();
        let _ = so.read_to_end(&mut s);
        String::from_utf8_lossy(&s).to_string()
    });
    let t2 = std::thread::spawn(move || {
        let mut s = Vec::new();
        let _ = se.read_to_end(&mut s);
        String::from_utf8_lossy(&s).to_string()
    });
    let t0 = Instant::now();
    let mut timeout = false;
    let status = loop {
        match child.try_wait() {
            Ok(Some(st)) => break st,
            Ok(None) => {
                if t0.elapsed().as_secs_f64() > deadline {
                    timeout = true;
                    let _ = child.kill();
                    break child.wait().unwrap();
                }
                std::thread::sleep(Duration::from_millis(5));
            }
            Err(e) => panic!("wait: {}", e),
        }
    };
    let stdout = t1.join().unwrap();
    let stderr = t2.join().unwrap();
    let signal = {
        use std::os::unix::process::ExitStatusExt;
        if timeout { 0 } else { status.signal().unwrap_or(0) }
    };
    let code = status.code().unwrap_or(-1);
    // stdout: "G inv.." then "p c1 c2 .." lines
    let mut inv_out: Vec<Value> = vec![];
    let mut invd: Vec<String> = vec![];
    let mut ngens = 0;
    let mut outbad = 0;
    let mut gline = false;
    let mut coordbad = 0;
    for (li, line) in stdout.lines().enumerate() {
        let mut it = line.split_whitespace();
        if li == 0 {
            if it.next() != Some("G") {
                outbad += 1;
                continue;
            }
            gline = true;
            for t in it {
                match Uint::from_str(t) {
                    Ok(x) if t.bytes().all(|b| b.is_ascii_digit()) => {
                        inv_out.push(dn(&x));
                        invd.push(t.to_string());
                    }
                    _ => outbad += 1,
                }
            }
        } else {
            let p = it.next().and_then(|t| t.parse::<u32>().ok());
            let c: Option<Vec<u128>> = it.map(|t| t.parse::<u128>().ok()).collect();
            match (p, c) {
                (Some(_), Some(c)) => {
                    ngens += 1;
                    if c.len() != invd.len() {
                        coordbad += 1;
                    }
                }
                _ => outbad += 1,
            }
        }
    }
    // files of OUTPUTDIR
    let mut files: Vec<String> = vec![];
    let mut hfile = json!([]);
    let mut gs_same = false;
    let mut nsieve = 0;
    let dir_exists = inv.outdir.as_ref().map(|d| d.is_dir()).unwrap_or(false);
    if let Some(d) = &inv.outdir {
        if let Ok(rd) = std::fs::read_dir(d) {
            for f in rd.flatten() {
                files.push(f.file_name().to_string_lossy().to_string());
            }
        }
        files.sort();
        if let Ok(s) = std::fs::read_to_string(d.join("classnumber")) {
            if let Ok(h) = Uint::from_str(s.trim()) {
                hfile = dn(&h);
                ev["hfiled"] = json!(s.trim());
            }
        }
        if let Ok(s) = std::fs::read_to_string(d.join("group.structure")) {
            gs_same = s == stdout;
        }
        if let Ok(s) = std::fs::read_to_string(d.join("relations.sieve")) {
            nsieve = s.lines().count();
        }
    }
    let (ploc, pmsg) = panic_info(&stderr);
    let usage = stderr.trim_start().starts_with("Usage:");
    let why = if code == 0 && usage {
        "usage"
    } else if code == 0 && gline {
        "answer"
    } else if code == 0 {
        "silent"
    } else if pmsg.contains("could not read input number") {
        "number"
    } else if pmsg.contains("exceeds") && pmsg.contains("bits limit") {
        "size"
    } else if pmsg.contains("must be 0 or 1 mod 4") {
        "residue"
    } else if pmsg.contains("invalid verbosity") {
        "verbosity"
    } else if ploc.starts_with("src/classgroup.rs") && (pmsg.contains("Os {") || pmsg.contains("Not a directory") || pmsg.contains("NotADirectory")) {
        "outdir"
    } else if !ploc.is_empty() && !ploc.starts_with("src/bin/") {
        "libfail"
    } else {
        "internal"
    };
    ev["status"] = json!(if timeout { -1 } else { code });
    ev["signal"] = json!(signal);
    ev["timeout"] = json!(timeout);
    ev["inv"] = Value::from(inv_out);
    ev["invd"] = json!(invd);
    ev["gline"] = json!(gline);
    ev["ngens"] = json!(ngens);
    ev["outbad"] = json!(outbad);
    ev["coordbad"] = json!(coordbad);
    ev["outlines"] = json!(stdout.lines().count());
    ev["why"] = json!(why);
    ev["ploc"] = json!(ploc);
    ev["pmsg"] = json!(pmsg.chars().take(200).collect::<String>());
    ev["dir_exists"] = json!(dir_exists);
    ev["files"] = json!(files);
    ev["hfile"] = hfile;
    ev["gs_same"] = json!(gs_same);
    ev["nsieve"] = json!(nsieve);
    ev["secs"] = json!((t0.elapsed().as_secs_f64() * 1000.0).round() / 1000.0);
    if let Some(d) = &inv.outdir {
        let _ = std::fs::remove_dir_all(d);
    }
    ev
}

fn run_cli(args: &Args) -> i32 {
    install_panic_hook();
    let bin = arg_str(args, "bin", "").to_string();
    assert!(!bin.is_empty(), "--bin <path to ymcls> is required");
    let seed = arg_u64(args, "seed", 1);
    let jobs = arg_u64(args, "jobs", 4).max(1) as usize;
    let deadline = arg_u64(args, "deadline", 300) as f64;
    let shapes = read_ndjson(arg_str(args, "shapes", "shapes.ndjson"));
    let scratch = PathBuf::from(arg_str(args, "scratch", "/tmp/cls-cli-scratch"));
    let _ = std::fs::create_dir_all(&scratch);
    let only = args.get("only").cloned();
    let mut invs = build_invs(&shapes, seed, &scratch);
    if let Some(o) = only {
        invs.retain(|i| i.case == o);
    }
    // the library's own answer for the same discriminant (in-process, no pool), what the program's printed class
    // number is compared with
    let mut libh: BTreeMap<u64, String> = BTreeMap::new();
    for inv in &invs {
        if let Some(n) = inv.n {
            if libh.contains_key(&n) || inv.cls["res"] != "ok" {
                continue;
            }
            let r = guard_deadline(600.0, move || {
                let d = -Int::from_bits(Uint::from(n));
                let mut prefs = Preferences::default();
                prefs.verbosity = Verbosity::Silent;
                classgroup::classgroup(&d, &prefs, None).map(|g| g.h.to_string())
            });
            if let Ok(Some(h)) = r {
                libh.insert(n, h);
            }
        }
    }
    let mut out = Out::create(arg_str(args, "out", "trace.ndjson"));
    let next = AtomicUsize::new(0);
    let results: Vec<Mutex<Option<Value>>> = invs.iter().map(|_| Mutex::new(None)).collect();
    std::thread::scope(|s| {
        for _ in 0..jobs.min(invs.len().max(1)) {
            s.spawn(|| loop {
                let i = next.fetch_add(1, Ordering::SeqCst);
                if i >= invs.len() {
                    break;
                }
                let ev = run_one_cli(&bin, &invs[i], deadline, &libh);
                *results[i].lock().unwrap() = Some(ev);
            });
        }
    });
    for r in results {
        out.ev(r.into_inner().unwrap().unwrap());
    }
    out.finish();
    0
}

pub fn run(args: &Args) -> i32 {
    match arg_str(args, "mode", "proto") {
        "cli" => run_cli(args),
        _ => run_proto(args),
    }
}
