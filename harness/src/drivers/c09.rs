//! C09 driver: multiprecision gcd / extended gcd / modular inverse (arith_gcd.rs, and the ZmodN
//! wrappers) on the operand shapes enumerated by spec/gcd/GcdShapes.tla.  Every event carries an
//! independent Bezout witness (plain Euclid on 2048-bit integers) that spec/gcd/GcdTrace.tla verifies
//! before judging what the code returned.  Nothing is judged here.
//!
//! With `--steps-every K` a subset of the pairs is run once more through gcd_internal<N,true> and <N,false> with the
//! per-iteration hooks of arith_gcd.rs switched on (yamaquasi::verif::start/stop): the hook events (enter, swap /
//! slow / fast per loop iteration, exit) plus a harness event `result` form one group per call in `--steps-out`,
//! replayed by spec/gcd/GcdStepTrace.tla against the loop model at the real word size (Drift only).

use bnum::cast::CastFrom;
use bnum::types::{I2048, U2048};
use bnum::{BInt, BUint};
use rand::rngs::StdRng;
use rand::Rng;
use serde_json::{json, Map, Value};

use yamaquasi::arith_gcd;
use yamaquasi::arith_montgomery::{MInt, ZmodN};

use crate::gen::{rand_below, rand_bits, rng_for, Uint};
use crate::trace::*;

fn merge(mut base: Value, r: Result<Value, Value>) -> Value {
    let extra = match r {
        Ok(v) => v,
        Err(v) => v,
    };
    if let (Some(b), Some(e)) = (base.as_object_mut(), extra.as_object()) {
        for (k, v) in e {
            b.insert(k.clone(), v.clone());
        }
    }
    base
}

/// independent extended Euclid: (g, u, v) with u a + v b = g
fn xgcd(a: &Uint, b: &Uint) -> (Uint, I2048, I2048) {
    let (mut r0, mut r1) = (U2048::cast_from(*a), U2048::cast_from(*b));
    let (mut s0, mut s1) = (I2048::ONE, I2048::ZERO);
    let (mut t0, mut t1) = (I2048::ZERO, I2048::ONE);
    while !r1.is_zero() {
        let q = r0 / r1;
        let r2 = r0 - q * r1;
        let qi = I2048::cast_from(q);
        let s2 = s0 - qi * s1;
        let t2 = t0 - qi * t1;
        (r0, r1) = (r1, r2);
        (s0, s1) = (s1, s2);
        (t0, t1) = (t1, t2);
    }
    (Uint::cast_from(r0), s0, t0)
}

fn witness(a: &Uint, b: &Uint) -> Value {
    let (g, u, v) = xgcd(a, b);
    json!({"wg": dn(&g), "wu": di(&u), "wv": di(&v)})
}

fn narrow<const N: usize>(x: &Uint) -> BUint<N> {
    let mut d = [0u64; N];
    d.copy_from_slice(&x.digits()[..N]);
    debug_assert!(x.digits()[N..].iter().all(|&w| w == 0));
    BUint::from_digits(d)
}

/// continued-fraction pair: quotient sizes drawn by `qbits`; widths about (wa, wb), wa >= wb, at most maxbits
fn cf_pair(rng: &mut StdRng, wa: u32, wb: u32, g: Uint, qbits: &mut dyn FnMut(&mut StdRng) -> u32) -> (Uint, Uint) {
    let (mut x, mut y) = (g, Uint::ZERO);
    loop {
        let qb = qbits(rng);
        if x.bits() + qb > wb {
            break;
        }
        let q = rand_bits(rng, qb);
        (x, y) = (q * x + y, x);
    }
    // last quotient gives the width difference
    let qb = std::cmp::max(wa.saturating_sub(x.bits()), 1);
    let q = rand_bits(rng, qb);
    let a = q * x + y;
    (a, x)
}

fn make_pair(rng: &mut StdRng, rel: &str, wa: u32, wb: u32, maxbits: u32) -> (Uint, Uint) {
    let one = Uint::ONE;
    let (a, b) = match rel {
        "random" => (rand_bits(rng, wa), rand_bits(rng, wb)),
        "equal" => {
            let a = rand_bits(rng, wa);
            (a, a)
        }
        "azero" => (Uint::ZERO, rand_bits(rng, wb)),
        "bzero" => (rand_bits(rng, wa), Uint::ZERO),
        "bothzero" => (Uint::ZERO, Uint::ZERO),
        "multiple" => {
            let b = rand_bits(rng, wb);
            let k = rand_bits(rng, std::cmp::max(wa.saturating_sub(wb), 1));
            (b * k, b)
        }
        "adjacent" => {
            let a = rand_bits(rng, wa);
            (a, if a.is_zero() { a } else { a - one })
        }
        "fib" => cf_pair(rng, wa, wb, one, &mut |_| 1),
        "cf_small" => {
            let g = Uint::from(rng.gen_range(1u64..4));
            cf_pair(rng, wa, wb, g, &mut |r| r.gen_range(1..=2))
        }
        "cf32" => cf_pair(rng, wa, wb, one, &mut |r| r.gen_range(30..=34)),
        "cf36" => cf_pair(rng, wa, wb, one, &mut |r| r.gen_range(34..=38)),
        "cf_mixed" => cf_pair(rng, wa, wb, one, &mut |r| match r.gen_range(0..6) {
            0 => 1,
            1 => r.gen_range(1..8),
            2 => r.gen_range(20..40),
            3 => r.gen_range(60..70),
            4 => 64,
            _ => r.gen_range(1..70),
        }),
        "common" | "commonsmall" => {
            let m = std::cmp::min(wa, wb);
            let gb = if rel == "common" { std::cmp::max(m / 2, 1) } else { std::cmp::min(m, rng.gen_range(2..12)) };
            let g = rand_bits(rng, gb) | one;
            let a1 = rand_bits(rng, std::cmp::max(wa.saturating_sub(gb), 1));
            let b1 = rand_bits(rng, std::cmp::max(wb.saturating_sub(gb), 1));
            (g * a1, g * b1)
        }
        "ones" => ((one << wa) - one, (one << wb) - one),
        "lowzero" => {
            let k = rng.gen_range(0..wa);
            let a = rand_bits(rng, wa - k) << k;
            let k2 = if rng.gen::<bool>() { rng.gen_range(0..wb) } else { 0 };
            (a, rand_bits(rng, wb - k2) << k2)
        }
        _ => panic!("unknown relation {}", rel),
    };
    // stay inside the supported operand size
    let clamp = |x: Uint| if x.bits() > maxbits { x >> (x.bits() - maxbits) } else { x };
    (clamp(a), clamp(b))
}

/// returns false if a call did not come back (the pair is then not used for further calls)
fn run_pair<const N: usize>(out: &mut Out, case: &str, sh: &Value, a: &Uint, b: &Uint, with_inv: bool) -> bool {
    let (an, bn) = (narrow::<N>(a), narrow::<N>(b));
    let base = json!({"op": "gcd", "case": case, "shape": sh, "N": N, "a": dn(a), "b": dn(b),
                      "ad": a.to_string(), "bd": b.to_string()});
    // deadline: a call takes well under a millisecond; a loop that makes no progress is an outcome
    let r = guard_deadline(20.0, move || {
        let (g, u, v): (BUint<N>, BInt<N>, BInt<N>) = arith_gcd::gcd_internal::<N, true>(&an, &bn);
        let g2 = arith_gcd::big_gcd(&an, &bn);
        json!({"g": dn(&g), "u": di(&u), "v": di(&v), "g2": dn(&g2)})
    });
    let mut alive = !matches!(&r, Err(e) if e["outcome"] == "timeout");
    out.ev(merge(merge(base, Ok(witness(a, b))), r));
    if !with_inv || !alive {
        return alive;
    }
    for (n, p, nn, pn, tag) in [(a, b, an, bn, "ab"), (b, a, bn, an, "ba")] {
        if *p <= Uint::ONE {
            continue; // inv_mod requires a modulus; modulus 1 is degenerate
        }
        let base = json!({"op": "inv_mod", "case": format!("{}/{}", case, tag), "shape": sh, "N": N, "n": dn(n), "p": dn(p),
                          "nd": n.to_string(), "pd": p.to_string()});
        let r = guard_deadline(20.0, move || match arith_gcd::inv_mod(&nn, &pn) {
            Ok(x) => json!({"ok": true, "r": dn(&x)}),
            Err(d) => json!({"ok": false, "r": dn(&d)}),
        });
        alive &= !matches!(&r, Err(e) if e["outcome"] == "timeout");
        out.ev(merge(merge(base, Ok(witness(n, p))), r));
    }
    alive
}

/// re-encodes a value written by the hooks of arith_gcd.rs ({"w":[words]} / {"neg":b,"w":[words]}) into the
/// BigNat / BigInt representation of spec/lib
fn conv_hook(v: &Value) -> Value {
    match v {
        Value::Object(m) if m.contains_key("w") => {
            let w: Vec<u64> = m["w"].as_array().unwrap().iter().map(|x| x.as_u64().unwrap()).collect();
            let d = digits_from_words(&w);
            match m.get("neg") {
                Some(n) => json!({"neg": n.clone(), "mag": d}),
                None => d,
            }
        }
        other => other.clone(),
    }
}

/// One call of gcd_internal::<N, EXT> with the per-iteration hooks of arith_gcd.rs switched on: the hook
/// events (enter, one per loop iteration, exit) are written as one group (`case`), followed by a harness event
/// `result` with what the call returned.  spec/gcd/GcdStepTrace.tla replays the group against the loop model.
fn trace_steps<const N: usize, const EXT: bool>(out: &mut Out, case: &str, sh: &Value, a: &Uint, b: &Uint, lat: bool) {
    let (an, bn) = (narrow::<N>(a), narrow::<N>(b));
    let case = format!("{}/{}", case, if EXT { "x" } else { "g" });
    let me = yamaquasi::verif::tid();
    yamaquasi::verif::start();
    let r = guard(|| arith_gcd::gcd_internal::<N, EXT>(&an, &bn));
    let evs = yamaquasi::verif::stop();
    for line in evs {
        let v: Value = match serde_json::from_str(&line) {
            Ok(v) => v,
            Err(_) => continue,
        };
        let op = v["op"].as_str().unwrap_or("");
        if v["tid"].as_u64() != Some(me as u64) || !op.starts_with("gcd_") {
            continue; // (a call abandoned after a deadline may still be running on another thread)
        }
        let mut o = Map::new();
        o.insert("op".into(), Value::from(&op[4..]));
        o.insert("case".into(), Value::from(case.clone()));
        for (k, x) in v.as_object().unwrap() {
            if k != "op" && k != "tid" {
                o.insert(k.clone(), conv_hook(x));
            }
        }
        if op == "gcd_enter" {
            o.insert("shape".into(), sh.clone());
            o.insert("lat".into(), Value::from(lat));
            o.insert("nd".into(), Value::from(a.to_string()));
            o.insert("pd".into(), Value::from(b.to_string()));
        }
        out.ev(Value::Object(o));
    }
    let base = json!({"op": "result", "case": case, "shape": sh, "N": N, "ext": EXT, "a": dn(a), "b": dn(b)});
    let r = r.map(|(g, u, v)| if EXT { json!({"g": dn(&g), "u": di(&u), "v": di(&v)}) } else { json!({"g": dn(&g)}) });
    out.ev(merge(base, r));
}

fn to_mint(x: &Uint) -> MInt {
    let mut m = MInt::default();
    m.0.copy_from_slice(&x.digits()[..8]);
    m
}

pub fn run(args: &Args) -> i32 {
    let seed = arg_u64(args, "seed", 1);
    let reps = arg_u64(args, "reps", 1);
    let shapes = read_ndjson(arg_str(args, "shapes", "shapes.ndjson"));
    let mut out = Out::create(arg_str(args, "out", "trace.ndjson"));
    let mut rng = rng_for(seed, "c09");
    let mut hung = 0;
    // per-iteration traces (spec/gcd/GcdStepTrace.tla): every `steps_every`-th shape of each (instantiation,
    // relation) class, both variants of gcd_internal; `lat_every`: how many of those carry the request to check
    // the full lattice invariant at every step (otherwise it is checked by induction and at the exit)
    let steps_every = arg_u64(args, "steps-every", 0);
    let lat_every = arg_u64(args, "lat-every", 1);
    let mut steps_out = if steps_every > 0 { Some(Out::create(arg_str(args, "steps-out", "steps.ndjson"))) } else { None };
    let mut seen_class: std::collections::HashMap<(u64, String), u64> = std::collections::HashMap::new();
    let mut traced = 0u64;
    for (si, sh) in shapes.iter().enumerate() {
        let n = sh["n"].as_u64().unwrap();
        let wa = sh["wa"].as_u64().unwrap() as u32;
        let wb = sh["wb"].as_u64().unwrap() as u32;
        let rel = sh["rel"].as_str().unwrap();
        let maxbits: u32 = if n == 8 { 500 } else { 1012 };
        for rep in 0..reps {
            if hung >= 6 {
                // several calls never returned (each already recorded as an outcome): every further one would
                // cost a full deadline and leave another spinning thread behind; stop here
                break;
            }
            let (a, b) = make_pair(&mut rng, rel, wa, wb, maxbits);
            let case = format!("{}/{}", si, rep);
            let alive = if n == 8 {
                run_pair::<8>(&mut out, &case, sh, &a, &b, true)
            } else {
                run_pair::<16>(&mut out, &case, sh, &a, &b, true)
            };
            // the wrappers of the modular ring: odd modulus <= 500 bits, residue below it
            if !alive {
                hung += 1;
            }
            if let (Some(so), true, 0) = (steps_out.as_mut(), alive, hung) {
                let k = seen_class.entry((n, rel.to_string())).or_insert(0);
                *k += 1;
                if (*k - 1) % steps_every == 0 {
                    let lat = traced % lat_every == 0;
                    traced += 1;
                    if n == 8 {
                        trace_steps::<8, true>(so, &case, sh, &a, &b, lat);
                        trace_steps::<8, false>(so, &case, sh, &a, &b, lat);
                    } else {
                        trace_steps::<16, true>(so, &case, sh, &a, &b, lat);
                        trace_steps::<16, false>(so, &case, sh, &a, &b, lat);
                    }
                }
            }
            if alive && n == 8 && (si + rep as usize) % 4 == 0 {
                let (mut m, mut x) = if a >= b { (a, b) } else { (b, a) };
                m |= Uint::ONE;
                if m < Uint::from(3u64) {
                    m = Uint::from(3u64);
                }
                if x >= m {
                    x = rand_below(&mut rng, &m);
                }
                let w = witness(&m, &x);
                let zn = match guard(|| ZmodN::new(m)) {
                    Ok(z) => z,
                    Err(e) => {
                        out.ev(merge(json!({"op": "zn_inv", "case": format!("{}/zn", case), "shape": sh, "n": dn(&m), "a": dn(&x)}), Err(e)));
                        continue;
                    }
                };
                let base = json!({"op": "zn_inv", "case": format!("{}/zn", case), "shape": sh, "n": dn(&m), "a": dn(&x),
                                  "nd": m.to_string(), "ad": x.to_string()});
                let r = guard(|| {
                    let i = zn.inv(to_mint(&x));
                    json!({"some": i.is_some(), "r": dn(&i.map(Uint::from).unwrap_or(Uint::ZERO))})
                });
                out.ev(merge(merge(base, Ok(w.clone())), r));
                let base = json!({"op": "zn_gcd", "case": format!("{}/zn", case), "shape": sh, "n": dn(&m), "a": dn(&x),
                                  "nd": m.to_string(), "ad": x.to_string()});
                let r = guard(|| json!({"g": dn(&zn.gcd(&to_mint(&x)))}));
                out.ev(merge(merge(base, Ok(w)), r));
            }
        }
    }
    let n = out.finish();
    let ns = steps_out.map(|o| o.finish()).unwrap_or(0);
    println!("{}", json!({ "events": n, "step_events": ns }));
    0
}
