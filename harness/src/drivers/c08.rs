//! C08 driver: word-level division (Dividers), inversion (Inverter), modular square roots, integer
//! square roots, modular exponentiation, inv_mod64 and perfect-power detection, on the input space
//! enumerated by spec/wordarith/WordShapes.tla (routine x prime class x operand pattern).
//!
//! All calls of one (routine, prime) are logged as one batch event; the contracts are evaluated by
//! spec/wordarith/WordArithTrace.tla.  Nothing is judged here.

use std::collections::BTreeMap;

use bnum::cast::CastFrom;
use bnum::types::{I1024, U1024, U2048, U256, U512};
use bnum::BUint;
use rand::rngs::StdRng;
use rand::Rng;
use serde_json::{json, Value};

use yamaquasi::arith::{self, Dividers, Inverter};
use yamaquasi::fbase::FBase;
use yamaquasi::squfof::vhook as sqf;

use crate::gen::{is_prime_u64, rand_bits, rng_for, Pool, Uint};
use crate::trace::*;

const SAT: u64 = (1 << 31) - 1;
/// small outputs are logged as plain integers saturated at 2^31 - 1 (outside every valid range)
fn sat(x: u64) -> u64 {
    std::cmp::min(x, SAT)
}

fn merge(mut base: Value, r: Result<Value, Value>) -> Value {
    let extra = match r {
        Ok(v) => v,
        Err(v) => v,
    };
    if let (Some(b), Some(e)) = (base.as_object_mut(), extra.as_object()) {
        for (k, v) in e {
            b.insert(k.clone(), v.clone());
        }
    }
    base
}

fn bits64(x: u64) -> u32 {
    64 - x.leading_zeros()
}

fn rbits(rng: &mut StdRng, bits: u32) -> u64 {
    if bits == 0 {
        0
    } else {
        rand_bits(rng, bits).digits()[0]
    }
}

// ------------------------------------------------------------------------------------------
// primes
// ------------------------------------------------------------------------------------------
fn sieve(n: usize) -> Vec<u32> {
    let mut comp = vec![false; n];
    let mut ps = vec![];
    for i in 2..n {
        if !comp[i] {
            ps.push(i as u32);
            let mut j = i * i;
            while j < n {
                comp[j] = true;
                j += i;
            }
        }
    }
    ps
}

fn prev_prime(mut n: u64) -> u64 {
    loop {
        n -= 1;
        if is_prime_u64(n) {
            return n;
        }
    }
}

fn next_prime(mut n: u64) -> u64 {
    loop {
        n += 1;
        if is_prime_u64(n) {
            return n;
        }
    }
}

/// m64 field of a divider, read from its Debug output (None if the layout changed or `new` panics)
fn m64_of(p: u32) -> Option<u64> {
    let s = guard(|| format!("{:?}", Dividers::new(p))).ok()?;
    let i = s.find("m64: ")?;
    let t: String = s[i + 5..].chars().take_while(|c| c.is_ascii_digit()).collect();
    t.parse().ok()
}

struct Primes {
    small: Vec<u32>, // all primes below 2^16
    seed: u64,
    thorough: bool,
    cache: BTreeMap<String, Vec<u32>>,
}

impl Primes {
    fn class(&mut self, c: &str) -> Vec<u32> {
        if let Some(v) = self.cache.get(c) {
            return v.clone();
        }
        let mut rng = rng_for(self.seed, &format!("c08/primes/{}", c));
        let mut v: Vec<u32> = match c {
            "two" => vec![2],
            "tiny" => self.small.iter().cloned().filter(|&p| p > 2 && p < 256).collect(),
            "all16" => self.small.clone(),
            "all10" => self.small.iter().cloned().filter(|&p| p < 1024).collect(),
            "tz" => {
                // primes whose multiplier (or multiplier - 1) ends in many zero bits
                let mut cand: Vec<(u32, u32)> = vec![];
                let mut ps: Vec<u32> = sieve(1 << 20).into_iter().filter(|&p| p > 2).collect();
                for _ in 0..(if self.thorough { 60000 } else { 15000 }) {
                    let b = rng.gen_range(21..=30);
                    let p = next_prime(rbits(&mut rng, b) | 1);
                    if p < 1 << 30 {
                        ps.push(p as u32);
                    }
                }
                let mut refused: Vec<u32> = vec![];
                for p in ps {
                    if let Some(m) = m64_of(p) {
                        let tz = std::cmp::max(m.trailing_zeros(), (m - 1).trailing_zeros());
                        cand.push((tz, p));
                    } else if refused.len() < 8 && guard(|| Dividers::new(p)).is_err() {
                        // the constructor panicked on a prime below 2^30: keep it, its events will show the outcome
                        refused.push(p);
                    }
                }
                cand.sort();
                cand.reverse();
                let mut v: Vec<u32> = cand.iter().take(if self.thorough { 40 } else { 12 }).map(|x| x.1).collect();
                v.extend(refused);
                v
            }
            "fermat" => {
                let mut v = vec![257u32, 641, 65537, 274177, 6700417, 8191, 131071, 524287, 178481, 2796203, 715827883];
                // more prime divisors of 2^k +- 1 below 2^30
                for k in [37u32, 41, 43, 47, 53, 59, 61, 64, 96, 127, 128] {
                    for sgn in [1i32, -1] {
                        // trial division of 2^k + sgn by primes = 1 mod 2k-ish: search a few candidates
                        let mut q: u64 = 1;
                        let step = if sgn == 1 { 2 * k as u64 } else { k as u64 };
                        for _ in 0..200000 {
                            q += step;
                            if q >= 1 << 30 {
                                break;
                            }
                            if q % 2 == 1 && is_prime_u64(q) {
                                let t = crate::gen::powmod(&Uint::from(2u64), &Uint::from(k as u64), &Uint::from(q)).digits()[0];
                                if (sgn == 1 && t == q - 1) || (sgn == -1 && t == 1) {
                                    v.push(q as u32);
                                    break;
                                }
                            }
                        }
                    }
                }
                v
            }
            "below2k" => (9..=30).map(|k| prev_prime(1u64 << k) as u32).collect(),
            "above2k" => (8..=29).map(|k| next_prime(1u64 << k) as u32).collect(),
            "top" => {
                let mut v = vec![];
                for (k, cnt) in [(30u32, 3), (28, 3), (24, 3), (16, 2)] {
                    let mut q = 1u64 << k;
                    for _ in 0..cnt {
                        q = prev_prime(q);
                        v.push(q as u32);
                    }
                }
                v
            }
            "rand" => {
                let per = if self.thorough { 20 } else { 2 };
                let mut v = vec![];
                for b in 9..=30u32 {
                    for _ in 0..per {
                        loop {
                            let q = rbits(&mut rng, b) | 1;
                            if is_prime_u64(q) {
                                v.push(q as u32);
                                break;
                            }
                        }
                    }
                }
                v
            }
            "twoadic" => {
                // p = c 2^k + 1 < 2^24, k = 4..22 (p - 1 divisible by a large power of two)
                let mut v = vec![];
                for k in 4..=22u32 {
                    let mut found = 0;
                    let mut c = 1u64;
                    while (c << k) + 1 < 1 << 24 && found < 2 {
                        let q = (c << k) + 1;
                        if is_prime_u64(q) {
                            v.push(q as u32);
                            found += 1;
                        }
                        c += 2;
                    }
                }
                v
            }
            _ => panic!("unknown prime class {}", c),
        };
        v.sort();
        v.dedup();
        self.cache.insert(c.to_string(), v.clone());
        v
    }
}

// ------------------------------------------------------------------------------------------
// operand patterns
// ------------------------------------------------------------------------------------------
/// values n = multiple of p adjacent to t, and neighbours, within [0, max]
fn around(p: u64, t: u128, max: u128) -> Vec<u128> {
    let p = p as u128;
    let m = t - t % p;
    let mut v = vec![];
    for base in [m.checked_sub(p), Some(m), m.checked_add(p)].into_iter().flatten() {
        for x in [base.checked_sub(1), Some(base), base.checked_add(1)].into_iter().flatten() {
            if x <= max {
                v.push(x);
            }
        }
    }
    v.push(t.min(max));
    if t >= 1 {
        v.push((t - 1).min(max));
    }
    v.sort();
    v.dedup();
    v
}

fn pats_u64(rng: &mut StdRng, p: u64, pat: &str) -> Vec<u64> {
    let max = u64::MAX as u128;
    let ar = |t: u128| -> Vec<u64> { around(p, t, max).into_iter().map(|x| x as u64).collect() };
    let pb = bits64(p);
    match pat {
        "zero" => vec![0],
        "one" => vec![1],
        "pm1" => vec![p - 1],
        "p" => vec![p],
        "pp1" => vec![p + 1, 2 * p - 1, 2 * p, 2 * p + 1],
        "mul32" => ar(1 << 32),
        "mul48" => ar(1 << 48),
        "mul62" => ar(1 << 62),
        "mul63" => ar(1 << 63),
        "mul64" => ar(1 << 64),
        "max" => vec![u64::MAX, u64::MAX - 1, 1 << 63, (1 << 63) - 1, (1 << 63) + 1],
        "pow2" => {
            let mut v = vec![];
            for j in [31u32, 32, 33, 62, 63, rng.gen_range(1..64), rng.gen_range(1..64), rng.gen_range(1..64)] {
                v.push(1u64 << j);
                v.push((1u64 << j) - 1);
            }
            v
        }
        "qmaxrem" | "qzero" | "qm1" => {
            let mut v = vec![];
            for qb in [1u32, 16, 33, 63 - pb, 64 - pb, 64 - pb, rng.gen_range(1..=64 - pb)] {
                let q = rbits(rng, qb) as u128;
                let n = match pat {
                    "qmaxrem" => q * p as u128 + (p as u128 - 1),
                    "qzero" => q * p as u128,
                    _ => q * p as u128 - 1,
                };
                if n <= max {
                    v.push(n as u64);
                    if pat == "qm1" && n + 2 <= max {
                        v.push(n as u64 + 2);
                    }
                }
            }
            v
        }
        "rand64" => (0..4).map(|_| rng.gen()).collect(),
        "randbits" => (0..4).map(|_| { let b = rng.gen_range(1..=64); rbits(rng, b) }).collect(),
        "psq" => {
            let mut v = vec![p * p - 1, p * p, p * p + 1];
            if let Some(c) = (p * p).checked_mul(p) {
                v.extend([c - 1, c, c + 1]);
            }
            v
        }
        _ => panic!("unknown u64 pattern {}", pat),
    }
}

fn pats_i64(rng: &mut StdRng, p: u64, pat: &str) -> Vec<i64> {
    if pat == "i64min" {
        let mut v = vec![i64::MIN, i64::MIN + 1, i64::MAX, -1, -(p as i64), -(p as i64) + 1, -(p as i64) - 1];
        for x in around(p, 1 << 63, 1 << 63) {
            v.push((-(x as i128)) as i64);
        }
        return v;
    }
    let mut v = vec![];
    for x in pats_u64(rng, p, pat) {
        if x <= i64::MAX as u64 {
            v.push(x as i64);
            v.push(-(x as i64));
        } else if x == 1 << 63 {
            v.push(i64::MIN);
        }
    }
    v
}

fn r64_of(p: u64) -> u64 {
    ((u64::MAX % p) + 1) % p
}

/// second word making the first Horner step (pol * r64 + d) overflow its 64-bit reduction, if possible
fn carry_word(rng: &mut StdRng, p: u64, pol: u64) -> u64 {
    let t = pol as u128 * r64_of(p) as u128;
    let hi = ((t >> 64) as u64 + 1) * r64_of(p);
    let delta = if hi > 1 { rng.gen_range(0..hi) } else { 0 };
    (u64::MAX - t as u64).wrapping_sub(delta / 2)
}

fn pats_u128(rng: &mut StdRng, p: u64, pat: &str) -> Vec<u128> {
    let max = u128::MAX;
    match pat {
        "hi0" => {
            let mut v: Vec<u128> = vec![0, 1, p as u128, u64::MAX as u128];
            v.extend(pats_u64(rng, p, "mul64").into_iter().map(|x| x as u128));
            v.extend(pats_u64(rng, p, "rand64").into_iter().map(|x| x as u128));
            v
        }
        "mul64" => around(p, 1 << 64, max),
        "mul127" => around(p, 1 << 127, max),
        "mul128" => {
            let mut v = around(p, max - max % p as u128, max);
            v.push(max);
            v
        }
        "max" => vec![max, max - 1, 1 << 127, (1 << 127) - 1, (1 << 127) + 1],
        "pow2" => {
            let mut v = vec![];
            for j in [64u32, 65, 95, 96, 97, 126, 127, rng.gen_range(64..128), rng.gen_range(64..128)] {
                v.push(1u128 << j);
                v.push((1u128 << j) - 1);
                v.push((1u128 << j) + 1);
            }
            v
        }
        "carry" => (0..8)
            .map(|i| {
                let pol: u64 = if i < 2 { u64::MAX - i } else { rng.gen::<u64>() | (1 << 63) };
                ((pol as u128) << 64) | carry_word(rng, p, pol) as u128
            })
            .collect(),
        "n0zero" => (0..4).map(|_| (rng.gen::<u64>() as u128) << 64).collect(),
        "n0ones" => (0..4).map(|_| ((rng.gen::<u64>() as u128) << 64) | u64::MAX as u128).collect(),
        "rand128" => (0..4).map(|_| rng.gen::<u128>() >> rng.gen_range(0..64)).collect(),
        "qzero" | "qm1" => {
            let mut v = vec![];
            for qb in [40u32, 64, 65, 97, 128 - bits64(p)] {
                let q: u128 = (rng.gen::<u128>() | (1 << 127)) >> (128 - qb);
                if let Some(n) = q.checked_mul(p as u128) {
                    v.push(if pat == "qzero" { n } else { n - 1 });
                }
            }
            v
        }
        _ => panic!("unknown u128 pattern {}", pat),
    }
}

fn rand_uint<const N: usize>(rng: &mut StdRng, bits: u32) -> BUint<N> {
    let x = rand_bits(rng, bits);
    let mut d = [0u64; N];
    d.copy_from_slice(&x.digits()[..N]);
    BUint::from_digits(d)
}

fn pats_uint<const N: usize>(rng: &mut StdRng, p: u64, pat: &str) -> Vec<BUint<N>> {
    let w = 64 * N as u32;
    let one = BUint::<N>::ONE;
    let pp = BUint::<N>::from(p);
    let small = |rng: &mut StdRng| BUint::<N>::from(rng.gen_range(0u64..2_000_000_000));
    match pat {
        "zero" => vec![BUint::ZERO],
        "small" => vec![one, pp - one, pp, pp + one, BUint::from(u64::MAX), BUint::from(rng.gen::<u64>())],
        "ones" => {
            let m = BUint::<N>::MAX;
            let top = m - m % pp;
            vec![m, m - one, top, top - one, top.wrapping_add(one)]
        }
        "topbit" => {
            let t = one << (w - 1);
            vec![t, t - one, t + one, t - t % pp, t - t % pp - one]
        }
        "altwords" => {
            let mut a = [0u64; N];
            let mut b = [0u64; N];
            for i in 0..N {
                if i % 2 == 0 {
                    a[i] = u64::MAX
                } else {
                    b[i] = u64::MAX
                }
            }
            vec![BUint::from_digits(a), BUint::from_digits(b)]
        }
        "tricky" => {
            let j = rng.gen_range(1..N as u32);
            vec![
                (one << 64) + BUint::from(1_234_567_890u64),
                (one << 65) + BUint::from(1_234_567_890u64),
                (one << 64) + small(rng),
                (one << 65) + small(rng),
                (one << (64 * j)) + small(rng),
                (one << (64 * j)) - small(rng) - one,
                (one << (64 * j + 1)) + small(rng),
            ]
        }
        "mulq" => {
            let mut v = vec![];
            for _ in 0..3 {
                let qb = rng.gen_range(1..=w - 31);
                let n = rand_uint::<N>(rng, qb) * pp;
                v.extend([n, n - one, n + one, n + pp - one]);
            }
            let n = rand_uint::<N>(rng, w - 31) * pp;
            v.extend([n, n - one]);
            v
        }
        "mul2k" => {
            let mut v = vec![];
            let mut js = vec![1u32, N as u32 - 1];
            js.push(rng.gen_range(1..N as u32));
            for j in js {
                let t = one << (64 * j);
                let m = t - t % pp;
                v.extend([m - one, m, m + one, m + pp - one, m + pp, t, t - one]);
            }
            v
        }
        "carry" => {
            let mut v = vec![];
            for i in 0..6 {
                let j = if i < 2 { N - 1 } else { rng.gen_range(1..N) }; // position of the top non-zero word
                let mut d = [0u64; N];
                for k in 0..j {
                    d[k] = rng.gen();
                }
                let pol: u64 = if i % 2 == 0 { u64::MAX - rng.gen_range(0..3) } else { rng.gen::<u64>() | (1 << 63) };
                d[j] = pol;
                d[j - 1] = carry_word(rng, p, pol);
                v.push(BUint::from_digits(d));
            }
            v
        }
        "rand" => (0..4).map(|_| { let b = rng.gen_range(1..=w); rand_uint::<N>(rng, b) }).collect(),
        "sparse" => {
            let mut v = vec![];
            for _ in 0..3 {
                let mut d = [0u64; N];
                for k in 0..N {
                    if rng.gen::<bool>() {
                        d[k] = rng.gen();
                    }
                }
                v.push(BUint::from_digits(d));
            }
            // multiples of p shifted by whole words: zero low words with no pending remainder
            for _ in 0..2 {
                let j = rng.gen_range(1..N as u32);
                let qb = rng.gen_range(1..=w - 64 * j - 31);
                let q = rand_uint::<N>(rng, qb);
                v.push((q * pp) << (64 * j));
                v.push(((q * pp) << (64 * j)) + BUint::from(rng.gen_range(0..p)));
            }
            v
        }
        _ => panic!("unknown multiword pattern {}", pat),
    }
}

fn pats_u16(rng: &mut StdRng, p: u64, pat: &str) -> Vec<u16> {
    let top = 0xffffu64 - 0xffff % p;
    let v: Vec<u64> = match pat {
        "edges" => vec![0, 1, p - 1, p % 65536, (p + 1) % 65536, 0xffff, 0xfffe, 0x8000, 0x7fff, 0x8001, top, top - 1, (top + 1).min(0xffff), top + p - 1],
        "mul" => {
            let mut v = vec![];
            for _ in 0..3 {
                let k = rng.gen_range(0..=0xffff / p);
                v.extend([k * p, (k * p).saturating_sub(1), k * p + p - 1]);
            }
            v
        }
        "rand" => (0..3).map(|_| rng.gen_range(0..65536)).collect(),
        _ => panic!("unknown u16 pattern {}", pat),
    };
    v.into_iter().filter(|&x| x <= 0xffff).map(|x| x as u16).collect()
}

fn pats_inv(rng: &mut StdRng, p: u64, pat: &str) -> Vec<u32> {
    let v: Vec<u64> = match pat {
        "one" => vec![1],
        "two" => vec![2, 3, 4],
        "pm1" => vec![p - 1],
        "pm2" => vec![p - 2, p - 3],
        "pow2" => {
            let mut v = vec![];
            let mut x = 2u64;
            while x < p {
                v.push(x);
                if x > 2 {
                    v.push(x - 1);
                }
                if x + 1 < p {
                    v.push(x + 1);
                }
                x *= 2;
            }
            v
        }
        "half" => vec![p / 2, p / 2 + 1, p / 3, (2 * p) / 3],
        "rand" => (0..8).map(|_| rng.gen_range(1..p)).collect(),
        "smallrand" => (0..4).map(|_| rng.gen_range(1..std::cmp::min(p, 1000))).collect(),
        _ => panic!("unknown inverter pattern {}", pat),
    };
    v.into_iter().filter(|&x| x > 0 && x < p).map(|x| x as u32).collect()
}

fn pats_sqrt(rng: &mut StdRng, p: u64, pat: &str) -> Vec<u64> {
    match pat {
        "zero" => vec![0],
        "one" => vec![1, 2, 3, 4],
        "pm1" => vec![p - 1, p.saturating_sub(2), p.saturating_sub(4)],
        "square" => (0..4).map(|_| { let r = rng.gen_range(0..p) as u128; ((r * r) % p as u128) as u64 }).collect(),
        "rand" => (0..6).map(|_| rng.gen_range(0..p)).collect(),
        "bign" => vec![rng.gen(), rng.gen::<u64>() | 1 << 63, u64::MAX, p + 1, 2 * p - 1],
        "mulp" => vec![p, 2 * p, p * rng.gen_range(1..1u64 << 32)],
        _ => panic!("unknown sqrt pattern {}", pat),
    }
}

// ------------------------------------------------------------------------------------------
// emitters
// ------------------------------------------------------------------------------------------
fn hex64(v: &[u64]) -> Value {
    Value::from(v.iter().map(|x| format!("{:#x}", x)).collect::<Vec<_>>())
}

fn dedup<T: Ord + Clone>(v: &mut Vec<T>) {
    v.sort();
    v.dedup();
}

fn dividers_uint<const N: usize>(out: &mut Out, base: &Value, p: u32, ns: &[BUint<N>], which: &str) {
    let nsj: Vec<Value> = ns.iter().map(dn).collect();
    let nsx: Vec<String> = ns.iter().map(|x| format!("{:#x}", x)).collect();
    let mut b = base.clone();
    b["ns"] = Value::from(nsj);
    b["nx"] = Value::from(nsx);
    b["w"] = json!(N);
    if which == "mod_uint" {
        let r = guard(|| {
            let d = Dividers::new(p);
            let rs: Vec<Value> = ns.iter().map(|n| du(d.mod_uint(n))).collect();
            json!({ "rs": rs })
        });
        out.ev(merge(b, r));
    } else {
        let r = guard(|| {
            let d = Dividers::new(p);
            let res: Vec<(BUint<N>, u64)> = ns.iter().map(|n| d.divmod_uint(n)).collect();
            json!({"qs": res.iter().map(|x| dn(&x.0)).collect::<Vec<_>>(), "rs": res.iter().map(|x| du(x.1)).collect::<Vec<_>>()})
        });
        out.ev(merge(b, r));
    }
}

fn root_floor(n: &Uint, k: u32) -> Uint {
    // floor of the k-th root by bit-by-bit construction (independent of the library under test)
    let nn = U2048::cast_from(*n);
    let maxbits = (n.bits() + k - 1) / k + 1;
    let mut r = U2048::ZERO;
    for b in (0..maxbits).rev() {
        let t = r | (U2048::ONE << b);
        // t^k <= n ?  t has at most maxbits bits, t^k at most n.bits + 2k bits < 2048
        let mut pw = U2048::ONE;
        let mut ok = true;
        for _ in 0..k {
            pw = pw * t;
            if pw > nn {
                ok = false;
                break;
            }
        }
        if ok {
            r = t;
        }
    }
    Uint::cast_from(r)
}

fn roots_json(n: &Uint) -> Value {
    Value::from([2u32, 3, 5, 7, 11, 13, 17, 19].iter().map(|&k| dn(&root_floor(n, k))).collect::<Vec<_>>())
}

pub fn run(args: &Args) -> i32 {
    let seed = arg_u64(args, "seed", 1);
    let thorough = arg_str(args, "tier", "quick") == "thorough";
    let shapes = read_ndjson(arg_str(args, "shapes", "shapes.ndjson"));
    let mut out = Out::create(arg_str(args, "out", "trace.ndjson"));
    let mut primes = Primes { small: sieve(1 << 16), seed, thorough, cache: BTreeMap::new() };

    // group the operand patterns by (routine, prime class)
    let mut groups: BTreeMap<(String, String), Vec<String>> = BTreeMap::new();
    for sh in &shapes {
        let k = (sh["op"].as_str().unwrap().to_string(), sh["pc"].as_str().unwrap().to_string());
        groups.entry(k).or_default().push(sh["np"].as_str().unwrap().to_string());
    }
    for ((op, pc), mut nps) in groups {
        nps.sort();
        let mut rng = rng_for(seed, &format!("c08/{}/{}", op, pc));
        match op.as_str() {
            "divmod64" | "modu63" | "modi64" | "mod_u128" | "mod_uint" | "divmod_uint" | "modu16" | "invert" | "sqrt_mod" => {
                let plist = primes.class(&pc);
                for (pi, &p) in plist.iter().enumerate() {
                    let p64 = p as u64;
                    let case = format!("{}/{}/{}", op, pc, p);
                    let base = json!({"op": op, "case": case, "pc": pc, "p": p, "nps": nps});
                    match op.as_str() {
                        "divmod64" | "modu63" => {
                            let mut ns: Vec<u64> = nps.iter().flat_map(|np| pats_u64(&mut rng, p64, np)).collect();
                            if op == "modu63" {
                                ns.retain(|&n| n >> 63 == 0);
                            }
                            dedup(&mut ns);
                            let mut b = base.clone();
                            b["ns"] = Value::from(ns.iter().map(|&n| du(n)).collect::<Vec<_>>());
                            b["nx"] = hex64(&ns);
                            let r = guard(|| {
                                let d = Dividers::new(p);
                                if op == "divmod64" {
                                    let res: Vec<(u64, u64)> = ns.iter().map(|&n| d.divmod64(n)).collect();
                                    json!({"qs": res.iter().map(|x| du(x.0)).collect::<Vec<_>>(), "rs": res.iter().map(|x| du(x.1)).collect::<Vec<_>>()})
                                } else {
                                    json!({"rs": ns.iter().map(|&n| du(d.modu63(n))).collect::<Vec<_>>()})
                                }
                            });
                            out.ev(merge(b, r));
                        }
                        "modi64" => {
                            let mut ns: Vec<i64> = nps.iter().flat_map(|np| pats_i64(&mut rng, p64, np)).collect();
                            dedup(&mut ns);
                            let mut b = base.clone();
                            b["ns"] = Value::from(ns.iter().map(|&n| di64(n)).collect::<Vec<_>>());
                            b["nx"] = Value::from(ns.iter().map(|n| n.to_string()).collect::<Vec<_>>());
                            let r = guard(|| {
                                let d = Dividers::new(p);
                                json!({"rs": ns.iter().map(|&n| du(d.modi64(n))).collect::<Vec<_>>()})
                            });
                            out.ev(merge(b, r));
                        }
                        "mod_u128" => {
                            let mut ns: Vec<u128> = nps.iter().flat_map(|np| pats_u128(&mut rng, p64, np)).collect();
                            dedup(&mut ns);
                            let mut b = base.clone();
                            b["ns"] = Value::from(ns.iter().map(|&n| du128(n)).collect::<Vec<_>>());
                            b["nx"] = Value::from(ns.iter().map(|n| format!("{:#x}", n)).collect::<Vec<_>>());
                            let r = guard(|| {
                                let d = Dividers::new(p);
                                json!({"rs": ns.iter().map(|&n| du(d.mod_u128(n))).collect::<Vec<_>>()})
                            });
                            out.ev(merge(b, r));
                        }
                        "mod_uint" | "divmod_uint" => {
                            // all three widths for the special classes, one width (rotating) otherwise
                            let all = thorough || matches!(pc.as_str(), "two" | "tz" | "fermat" | "top");
                            for (wi, w) in [4usize, 8, 16].iter().enumerate() {
                                if !all && pi % 3 != wi {
                                    continue;
                                }
                                let mut b = base.clone();
                                b["case"] = json!(format!("{}/{}", case, w));
                                match w {
                                    4 => {
                                        let ns: Vec<U256> = nps.iter().flat_map(|np| pats_uint::<4>(&mut rng, p64, np)).collect();
                                        dividers_uint(&mut out, &b, p, &ns, &op)
                                    }
                                    8 => {
                                        let ns: Vec<U512> = nps.iter().flat_map(|np| pats_uint::<8>(&mut rng, p64, np)).collect();
                                        dividers_uint(&mut out, &b, p, &ns, &op)
                                    }
                                    _ => {
                                        let ns: Vec<U1024> = nps.iter().flat_map(|np| pats_uint::<16>(&mut rng, p64, np)).collect();
                                        dividers_uint(&mut out, &b, p, &ns, &op)
                                    }
                                }
                            }
                        }
                        "modu16" => {
                            let mut ns: Vec<u16> = nps.iter().flat_map(|np| pats_u16(&mut rng, p64, np)).collect();
                            dedup(&mut ns);
                            let mut b = base.clone();
                            b["ns"] = json!(ns);
                            let r = guard(|| {
                                let d = Dividers::new(p);
                                json!({"rs": ns.iter().map(|&n| d.modu16(n)).collect::<Vec<_>>()})
                            });
                            out.ev(merge(b, r));
                        }
                        "invert" => {
                            if p >> 28 != 0 {
                                continue; // documented domain of the inverter
                            }
                            let mut xs: Vec<u32> = nps.iter().flat_map(|np| pats_inv(&mut rng, p64, np)).collect();
                            dedup(&mut xs);
                            let mut b = base.clone();
                            b["xs"] = json!(xs);
                            let r = guard(|| {
                                let d = Dividers::new(p);
                                let inv = Inverter::new(p);
                                json!({"is": xs.iter().map(|&x| sat(inv.invert(x, &d) as u64)).collect::<Vec<_>>()})
                            });
                            out.ev(merge(b, r));
                        }
                        "sqrt_mod" => {
                            if p >> 24 != 0 {
                                continue; // factor-base range
                            }
                            let mut ns: Vec<u64> = nps.iter().flat_map(|np| pats_sqrt(&mut rng, p64, np)).collect();
                            dedup(&mut ns);
                            let mut b = base.clone();
                            b["ns"] = Value::from(ns.iter().map(|&n| du(n)).collect::<Vec<_>>());
                            b["nx"] = hex64(&ns);
                            let r = guard(|| {
                                json!({"rs": ns.iter().map(|&n| match arith::sqrt_mod(n, p64) {
                                    Some(r) => json!(sat(r)),
                                    None => json!(-1),
                                }).collect::<Vec<_>>()})
                            });
                            out.ev(merge(b, r));
                        }
                        _ => unreachable!(),
                    }
                }
            }
            "modu16_all" => {
                // every 16-bit argument, in chunks
                for p in primes.class(&pc) {
                    const CH: usize = 8192;
                    for c in 0..65536 / CH {
                        let base = json!({"op": op, "case": format!("{}/{}/{}", op, p, c), "pc": pc, "p": p, "base": c * CH});
                        let r = guard(|| {
                            let d = Dividers::new(p);
                            json!({"rs": (c * CH..(c + 1) * CH).map(|n| d.modu16(n as u16)).collect::<Vec<_>>()})
                        });
                        out.ev(merge(base, r));
                    }
                }
            }
            "invert_all" => {
                for p in primes.class(&pc) {
                    if p == 2 {
                        continue;
                    }
                    let base = json!({"op": op, "case": format!("{}/{}", op, p), "pc": pc, "p": p});
                    let r = guard(|| {
                        let d = Dividers::new(p);
                        let inv = Inverter::new(p);
                        json!({"is": (1..p).map(|x| sat(inv.invert(x, &d) as u64)).collect::<Vec<_>>()})
                    });
                    out.ev(merge(base, r));
                }
            }
            "sqrt_all" => {
                for p in primes.class(&pc) {
                    let base = json!({"op": op, "case": format!("{}/{}", op, p), "pc": pc, "p": p});
                    let r = guard(|| {
                        json!({"rs": (0..p as u64).map(|a| match arith::sqrt_mod(a, p as u64) {
                            Some(r) => json!(sat(r)),
                            None => json!(-1),
                        }).collect::<Vec<_>>()})
                    });
                    out.ev(merge(base, r));
                }
            }
            "sqrt_big" => {
                // certified multiword primes p = 3 mod 4
                let mut pool = Pool::new(seed ^ 0xc08);
                let sizes: &[u32] = if thorough { &[65, 80, 100, 128, 160, 192, 250, 320] } else { &[65, 96, 128, 200] };
                for &bits in sizes {
                    let p = pool.prime_with(bits, &|p: &Uint| p.digits()[0] % 4 == 3);
                    let chain = pool.chain_of(&p).unwrap();
                    let mut ns: Vec<Uint> = vec![];
                    for np in &nps {
                        match np.as_str() {
                            "zero" => ns.push(Uint::ZERO),
                            "one" => ns.extend([Uint::ONE, Uint::from(2u64), Uint::from(3u64)]),
                            "pm1" => ns.extend([p - Uint::ONE, p - Uint::from(2u64)]),
                            "square" => {
                                for _ in 0..2 {
                                    let r = crate::gen::rand_below(&mut rng, &p);
                                    ns.push(crate::gen::mulmod(&r, &r, &p));
                                }
                            }
                            "rand" => {
                                let cnt = if bits <= 130 { 4 } else { 2 };
                                for _ in 0..cnt {
                                    ns.push(crate::gen::rand_below(&mut rng, &p));
                                }
                            }
                            "bign" => ns.extend([p + Uint::ONE, rand_bits(&mut rng, 2 * bits)]),
                            _ => panic!("unknown sqrt_big pattern"),
                        }
                    }
                    let base = json!({"op": op, "case": format!("{}/{}", op, bits), "pc": pc, "p": dn(&p), "pd": p.to_string(),
                                      "chain": chain, "bits": bits,
                                      "ns": ns.iter().map(dn).collect::<Vec<_>>()});
                    let r = guard(|| {
                        let res: Vec<Option<Uint>> = ns.iter().map(|n| arith::sqrt_mod(*n, p)).collect();
                        json!({"some": res.iter().map(|x| x.is_some()).collect::<Vec<_>>(),
                               "rs": res.iter().map(|x| dn(&x.unwrap_or(Uint::ZERO))).collect::<Vec<_>>()})
                    });
                    out.ev(merge(base, r));
                }
            }
            "fbase" => {
                for np in &nps {
                    let reps = if thorough { 4 } else { 1 };
                    for rep in 0..reps {
                        let (n, size): (I1024, u32) = match np.as_str() {
                            "pos" => (I1024::cast_from(rand_bits(&mut rng, 200)), 120),
                            "neg" => (-I1024::cast_from(rand_bits(&mut rng, 150)), 96),
                            _ => (I1024::cast_from(rand_bits(&mut rng, 40)), 40),
                        };
                        let base = json!({"op": op, "case": format!("{}/{}/{}", op, np, rep), "pc": pc, "n": di(&n), "nd": n.to_string(), "size": size});
                        let r = guard(|| {
                            let fb = FBase::new(n, size);
                            // every prime up to the largest listed one: listed with its root, or -1
                            let maxp = *fb.primes.last().unwrap_or(&2);
                            let mut ps = vec![];
                            let mut rs = vec![];
                            for q in sieve(maxp as usize + 1) {
                                ps.push(q);
                                match fb.primes.iter().position(|&x| x == q) {
                                    Some(i) => rs.push(json!(sat(fb.sqrts[i] as u64))),
                                    None => rs.push(json!(-1)),
                                }
                            }
                            json!({"ps": ps, "rs": rs, "listed": fb.primes.len()})
                        });
                        out.ev(merge(base, r));
                    }
                }
            }
            "isqrt" => {
                let mut ns: Vec<Uint> = vec![];
                let width: u32 = match pc.as_str() {
                    "arith64" | "squfof" => 64,
                    "arith256" => 256,
                    _ => 1024,
                };
                let maxv = if width == 1024 { Uint::MAX } else { (Uint::ONE << width) - Uint::ONE };
                for np in &nps {
                    match np.as_str() {
                        "small" => ns.extend((0..40u64).map(Uint::from)),
                        "squares" => {
                            for hb in 1..=width / 2 {
                                if width > 64 && hb % 7 != 3 && hb != width / 2 {
                                    continue;
                                }
                                for k in [Uint::ONE << (hb - 1), (Uint::ONE << hb) - Uint::ONE, rand_bits(&mut rng, hb)] {
                                    let sq = k * k;
                                    ns.extend([sq, sq + Uint::ONE, sq + k + k]);
                                    if !sq.is_zero() {
                                        ns.push(sq - Uint::ONE);
                                    }
                                }
                            }
                        }
                        "pow2" => {
                            for j in 0..width {
                                if width > 64 && j % 5 != 1 && j != width - 1 {
                                    continue;
                                }
                                ns.extend([Uint::ONE << j, (Uint::ONE << j) - Uint::ONE, (Uint::ONE << j) + Uint::ONE]);
                            }
                        }
                        "max" => ns.extend([maxv, maxv - Uint::ONE, maxv - Uint::from(2u64), maxv >> 1]),
                        "f64edge" => {
                            // arguments around the precision of a double: k^2 + d for k near 2^26.5 .. 2^32
                            for k in [94906265u64, 94906266, 94906267, 134217728, 3037000499, 3037000500, 4294967295, 4294967294, 2147483648, 67108865] {
                                let k = Uint::from(k);
                                let sq = k * k;
                                ns.extend([sq - Uint::ONE, sq, sq + Uint::ONE, sq + k + k, sq + k + k + Uint::ONE, sq - k]);
                            }
                            for j in [52u32, 53, 54, 55, 60, 63] {
                                for d in 0..3u64 {
                                    ns.push((Uint::ONE << j) + Uint::from(d));
                                    ns.push((Uint::ONE << j) - Uint::from(d + 1));
                                }
                            }
                        }
                        "rand" => {
                            for _ in 0..(if thorough { 200 } else { 40 }) {
                                let b = rng.gen_range(1..=width);
                                ns.push(rand_bits(&mut rng, b));
                            }
                        }
                        _ => panic!("unknown isqrt pattern"),
                    }
                }
                ns.retain(|n| *n <= maxv);
                dedup(&mut ns);
                for (ci, chunk) in ns.chunks(64).enumerate() {
                    let base = json!({"op": op, "case": format!("{}/{}/{}", op, pc, ci), "pc": pc,
                                      "ns": chunk.iter().map(dn).collect::<Vec<_>>(),
                                      "nx": chunk.iter().map(|n| format!("{:#x}", n)).collect::<Vec<_>>()});
                    // a square root that does not come back within 30 s (normal: microseconds) is an outcome
                    let (chunk, pc) = (chunk.to_vec(), pc.clone());
                    let r = guard_deadline(30.0, move || {
                        let rs: Vec<Value> = chunk.iter().map(|n| match pc.as_str() {
                            "arith64" => du(arith::isqrt(n.digits()[0])),
                            "squfof" => du(sqf::isqrt(n.digits()[0])),
                            "arith256" => dn(&arith::isqrt(U256::cast_from(*n))),
                            _ => dn(&arith::isqrt(*n)),
                        }).collect();
                        json!({ "rs": rs })
                    });
                    out.ev(merge(base, r));
                }
            }
            "pow_mod" => {
                // (n, k, p) with p*p inside the type (the routine multiplies residues in the type itself)
                let (pbits_max, cnt): (u32, usize) = match pc.as_str() {
                    "u64" => (32, if thorough { 24 } else { 8 }),
                    "u256" => (128, if thorough { 4 } else { 1 }),
                    _ => (if thorough { 384 } else { 192 }, 1),
                };
                let mut trip: Vec<(Uint, Uint, Uint)> = vec![];
                for np in &nps {
                    for _ in 0..cnt {
                        let pb = if rng.gen::<bool>() { pbits_max } else { rng.gen_range(2..=pbits_max) };
                        let mut p = rand_bits(&mut rng, pb);
                        if p < Uint::from(2u64) {
                            p = Uint::from(2u64);
                        }
                        let kb = rng.gen_range(1..=std::cmp::min(pbits_max * 2, 128));
                        let k = rand_bits(&mut rng, kb);
                        let n = crate::gen::rand_below(&mut rng, &p);
                        match np.as_str() {
                            "k0" => trip.push((n, Uint::ZERO, p)),
                            "k1" => trip.push((n, Uint::ONE, p)),
                            "n0" => trip.push((Uint::ZERO, k, p)),
                            "nbig" => trip.push((rand_bits(&mut rng, 2 * pbits_max), k, p)),
                            "pmax" => trip.push((n, k, (Uint::ONE << pbits_max) - Uint::ONE)),
                            "rand" => trip.push((n, k, p)),
                            "fermat" => trip.push((n, p - Uint::ONE, p)),
                            _ => panic!("unknown pow_mod pattern"),
                        }
                    }
                }
                for (ci, chunk) in trip.chunks(8).enumerate() {
                    let base = json!({"op": op, "case": format!("{}/{}/{}", op, pc, ci), "pc": pc,
                                      "ns": chunk.iter().map(|t| dn(&t.0)).collect::<Vec<_>>(),
                                      "ks": chunk.iter().map(|t| dn(&t.1)).collect::<Vec<_>>(),
                                      "ps": chunk.iter().map(|t| dn(&t.2)).collect::<Vec<_>>(),
                                      "dec": chunk.iter().map(|t| format!("{}^{} mod {}", t.0, t.1, t.2)).collect::<Vec<_>>()});
                    let r = guard(|| {
                        let rs: Vec<Value> = chunk.iter().map(|(n, k, p)| match pc.as_str() {
                            "u64" => du(arith::pow_mod(n.digits()[0], k.digits()[0], p.digits()[0])),
                            "u256" => dn(&arith::pow_mod(U256::cast_from(*n), U256::cast_from(*k), U256::cast_from(*p))),
                            _ => dn(&arith::pow_mod(*n, *k, *p)),
                        }).collect();
                        json!({ "rs": rs })
                    });
                    out.ev(merge(base, r));
                }
            }
            "inv_mod64" => {
                let mut pairs: Vec<(u64, u64)> = vec![];
                let cnt = if thorough { 200 } else { 40 };
                for np in &nps {
                    for i in 0..cnt {
                        let pb = rng.gen_range(2..=64);
                        let p = std::cmp::max(rbits(&mut rng, pb), 2);
                        let n = rng.gen_range(0..p);
                        match np.as_str() {
                            "small" => {
                                let p = rng.gen_range(1..200u64);
                                pairs.push((rng.gen_range(0..p + 3), p))
                            }
                            "coprime" => pairs.push((n, p)),
                            "common" => {
                                let g = [2u64, 3, 5, 7, 11, 65537, 641][i % 7];
                                let (a, b) = (p / g, n / g);
                                if a >= 1 {
                                    pairs.push((b * g, a * g));
                                }
                            }
                            "top63" => {
                                let p = (rng.gen::<u64>() >> 1) | 1 << 62;
                                pairs.push((rng.gen_range(0..p), p));
                                pairs.push((p - 1 - (i as u64), p));
                            }
                            "top64" => {
                                let p = rng.gen::<u64>() | 1 << 63;
                                pairs.push((rng.gen_range(0..p), p));
                                pairs.push((rng.gen_range(0..p) | 1 << 62, p | 1));
                                pairs.push((p - 1 - (i as u64), p));
                                pairs.push((rng.gen_range(1..1u64 << 20), p));
                            }
                            "ngep" => {
                                // operand not reduced (also with its top bit set, modulus small)
                                pairs.push((rng.gen::<u64>() | 1 << 63, p >> 1 | 1));
                                pairs.push((p.saturating_add(n), p));
                            }
                            "one" => pairs.push((1, p)),
                            "zero" => pairs.push((0, p)),
                            _ => panic!("unknown inv_mod64 pattern"),
                        }
                    }
                }
                pairs.push((0, 1));
                pairs.push((5, 1));
                pairs.push((u64::MAX, u64::MAX - 1));
                pairs.push((u64::MAX - 1, u64::MAX));
                pairs.push((1 << 63, (1 << 63) - 1));
                pairs.push(((1 << 63) - 1, 1 << 63));
                pairs.push((1 << 63, (1 << 63) + 1));
                dedup(&mut pairs);
                for (ci, chunk) in pairs.chunks(32).enumerate() {
                    let base = json!({"op": op, "case": format!("{}/{}", op, ci), "pc": pc,
                                      "ns": chunk.iter().map(|t| du(t.0)).collect::<Vec<_>>(),
                                      "ps": chunk.iter().map(|t| du(t.1)).collect::<Vec<_>>(),
                                      "dec": chunk.iter().map(|t| format!("{} mod {}", t.0, t.1)).collect::<Vec<_>>()});
                    let r = guard(|| {
                        let res: Vec<Option<u64>> = chunk.iter().map(|&(n, p)| arith::inv_mod64(n, p)).collect();
                        json!({"some": res.iter().map(|x| x.is_some()).collect::<Vec<_>>(),
                               "rs": res.iter().map(|x| du(x.unwrap_or(0))).collect::<Vec<_>>()})
                    });
                    out.ev(merge(base, r));
                }
            }
            "perfect_power" => {
                let big = pc == "u1024";
                let maxbits: u32 = if big { 1000 } else { 64 };
                let cnt = if thorough { 12 } else { 3 };
                let mut ns: Vec<Uint> = vec![];
                // base^k with base of the largest size that fits
                let power = |rng: &mut StdRng, k: u32, ns: &mut Vec<Uint>, near: bool| {
                    let bb = std::cmp::max(maxbits / k, 2);
                    let nb = rng.gen_range(2..=bb);
                    let b = rand_bits(rng, nb) | Uint::ONE;
                    let mut n = Uint::ONE;
                    for _ in 0..k {
                        n = n * b;
                    }
                    if n.bits() <= maxbits {
                        if near {
                            ns.extend([n + Uint::ONE, n - Uint::ONE, n + b]);
                        } else {
                            ns.push(n);
                        }
                    }
                };
                for np in &nps {
                    for _ in 0..cnt {
                        match np.as_str() {
                            "square" => power(&mut rng, 2, &mut ns, false),
                            "cube" => power(&mut rng, 3, &mut ns, false),
                            "prime_exp" => {
                                for k in [5u32, 7, 11, 13, 17, 19] {
                                    power(&mut rng, k, &mut ns, false)
                                }
                            }
                            "composite_exp" => {
                                let k = [4u32, 6, 8, 9, 10, 12, 15, 16, 20, 22, 25, 27][rng.gen_range(0..12)];
                                power(&mut rng, k, &mut ns, false)
                            }
                            "near" => {
                                let k = [2u32, 2, 3, 5, 7][rng.gen_range(0..5)];
                                power(&mut rng, k, &mut ns, true)
                            }
                            "rand" => {
                                let b = rng.gen_range(2..=maxbits);
                                ns.push(rand_bits(&mut rng, b))
                            }
                            "pow2" => {
                                // 2^k: k with and without a prime factor above 19 (documented limit of the routine)
                                let k = rng.gen_range(2..maxbits);
                                ns.push(Uint::ONE << k);
                                ns.push(Uint::from(3u64).pow(rng.gen_range(2..maxbits * 5 / 8)));
                            }
                            _ => panic!("unknown perfect_power pattern"),
                        }
                    }
                }
                if !big {
                    ns.extend([Uint::from(6669042837601u64), Uint::from(8650415919381337933u64), Uint::from(u64::MAX), Uint::from(1u64 << 63),
                               Uint::from(4294967295u64 * 4294967295u64), Uint::from(2u64), Uint::from(3u64), Uint::from(4u64)]);
                }
                ns.retain(|n| *n > Uint::ONE);
                dedup(&mut ns);
                for (ci, n) in ns.iter().enumerate() {
                    let base = json!({"op": op, "case": format!("{}/{}/{}", op, pc, ci), "pc": pc, "n": dn(n), "nd": n.to_string(),
                                      "roots": roots_json(n)});
                    let r = guard(|| {
                        let res: Option<(Uint, u32)> = if big {
                            arith::perfect_power(*n)
                        } else {
                            arith::perfect_power(n.digits()[0]).map(|(r, k)| (Uint::from(r), k))
                        };
                        match res {
                            Some((r, k)) => json!({"some": true, "r": dn(&r), "k": sat(k as u64), "broots": roots_json(&r)}),
                            None => json!({"some": false, "r": [], "k": 0, "broots": []}),
                        }
                    });
                    out.ev(merge(base, r));
                }
            }
            _ => panic!("unknown routine {}", op),
        }
    }
    let n = out.finish();
    println!("{}", json!({ "events": n }));
    0
}
