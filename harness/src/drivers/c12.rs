//! C12 driver: sieving polynomials of the three quadratic sieves and the class group sieve.
//!
//! For real inputs it builds the factor base, the SIQS polynomial families (every index of the Gray
//! code walk), MPQS polynomials (D from `sieve_for_polys`, including a D inside the factor base and a
//! constructed composite pseudo-square) and the classical QS forward/backward root tables, and logs
//! the polynomial data next to the per-prime root tables.  Nothing is judged here: the trace is
//! validated by spec/qspoly/QsPolyTrace.tla.
//!
//! Events (stateless, every event carries the primes it speaks about):
//!   fbase      n (signed), size, ps, rs, complete
//!   siqs_poly  n (signed), a b c (signed), kind, moff (start offset = -moff), idx, afac, ps, r1, r2,
//!              xn/xa (sampled x: sign, magnitude), ev (v, y of Poly::eval)
//!   mpqs_poly  n, a, b, c (signed), bb, d, dinv, moff, ps, dp (1/D mod p from batch inversion), r1, r2, ...
//!   qs_roots   n, nsqrt, c0 (signed), odds, ps, f1 f2 (forward), b1 b2 (backward)

use bnum::cast::CastFrom;
use rand::rngs::StdRng;
use rand::Rng;
use serde_json::{json, Map, Value};

use yamaquasi::arith::{self, I256};
use yamaquasi::fbase::{self, FBase};
use yamaquasi::{mpqs, qsieve, siqs, Int, Preferences, Uint, Verbosity};

use crate::gen::{is_prime_u64, probably_prime, rand_bits, rng_for};
use crate::trace::*;

fn di256(x: &I256) -> Value {
    di(x)
}

fn merge_err(o: &mut Map<String, Value>, e: Value) {
    if let Some(m) = e.as_object() {
        for (k, v) in m {
            o.insert(k.clone(), v.clone());
        }
    }
}

/// n = p q of exactly `bits` bits in the residue class `r8` modulo 8 (r8 odd), p and q random
/// (probable) primes of about half the size, p != q: what the sieves receive after trial division.
/// Primality is not relied upon by the specification.
fn gen_n(rng: &mut StdRng, bits: u32, r8: u64) -> Uint {
    loop {
        let pb = std::cmp::max(bits / 2, 9);
        let qb = bits - pb + if rng.gen_bool(0.5) { 1 } else { 0 };
        let p = rand_bits(rng, pb) | Uint::ONE;
        let q = rand_bits(rng, qb) | Uint::ONE;
        let n = p * q;
        if n.bits() != bits || n.digits()[0] % 8 != r8 || p == q {
            continue;
        }
        if !probably_prime(rng, &p) || !probably_prime(rng, &q) {
            continue;
        }
        return n;
    }
}

/// indices (into the factor base) of the primes whose roots are logged for one polynomial
fn sample_primes(rng: &mut StdRng, fb: &FBase, extra: &[usize], full_max: usize) -> Vec<usize> {
    let len = fb.len();
    if len <= full_max {
        return (0..len).collect();
    }
    let mut v: Vec<usize> = vec![];
    for i in 0..len {
        if fb.p(i) < 1024 {
            v.push(i);
        }
    }
    v.extend_from_slice(extra);
    for i in len - 64..len {
        v.push(i);
    }
    for _ in 0..200 {
        v.push(rng.gen_range(0..len));
    }
    v.sort();
    v.dedup();
    v
}

fn log_fbase(out: &mut Out, case: &str, alg: &str, n: &Int, size: u32, fb: &FBase, complete_max: usize) {
    let complete = fb.len() <= complete_max;
    out.ev(json!({"op": "fbase", "case": case, "alg": alg, "n": di(n), "nd": n.to_string(), "size": size,
                  "ps": fb.primes, "rs": fb.sqrts, "complete": complete}));
}

struct Budget {
    checks: u64,
}

/// One SIQS / class group family: polynomials of every Gray code index for the given A.
#[allow(clippy::too_many_arguments)]
fn siqs_family(
    out: &mut Out,
    rng: &mut StdRng,
    case: &str,
    tag: &str,
    n: &Int,
    fb: &FBase,
    factors: &siqs::Factors,
    a_int: &Uint,
    mm: usize,
    unit: bool,
    full_max: usize,
    budget: &mut Budget,
) {
    let mut prefs = Preferences::default();
    prefs.verbosity = Verbosity::Silent;
    let start_offset: i64 = if unit { 0 } else { -(mm as i64) / 2 };
    let base = |idx: usize| {
        let mut o = Map::new();
        o.insert("op".into(), json!("siqs_poly"));
        o.insert("case".into(), json!(case));
        o.insert("fam".into(), json!(tag));
        o.insert("n".into(), di(n));
        o.insert("nd".into(), json!(n.to_string()));
        o.insert("ad".into(), json!(a_int.to_string()));
        o.insert("mm".into(), json!(mm));
        o.insert("moff".into(), json!(-start_offset));
        o.insert("idx".into(), json!(idx));
        o
    };
    let r = guard(|| {
        let s = siqs::SieveSIQS::new(*n, fb, fb.bound() as u64, 0, mm, &prefs);
        let a = siqs::prepare_a(factors, a_int, fb, start_offset);
        (s, a)
    });
    let (s, a) = match r {
        Ok(x) => x,
        Err(e) => {
            let mut o = base(0);
            o.insert("stage".into(), json!("prepare_a"));
            merge_err(&mut o, e);
            out.ev(Value::Object(o));
            return;
        }
    };
    let afac = siqs::vhook::a_factors(&a);
    let aidx = siqs::vhook::a_factors_idx(&a);
    let nf = afac.len();
    let npolys: usize = if nf > 1 { 1 << (nf - 1) } else { 1 };
    let mut pol = match guard(|| siqs::Poly::first(&s, &a)) {
        Ok(p) => p,
        Err(e) => {
            let mut o = base(0);
            o.insert("stage".into(), json!("first"));
            merge_err(&mut o, e);
            out.ev(Value::Object(o));
            return;
        }
    };
    for idx in 0..npolys {
        if idx > 0 {
            if let Err(e) = guard(|| pol.next(&s, &a)) {
                let mut o = base(idx);
                o.insert("stage".into(), json!("next"));
                merge_err(&mut o, e);
                out.ev(Value::Object(o));
                return;
            }
        }
        // every index for families of at most 128 polynomials, else the first and last 64
        if npolys > 128 && idx >= 64 && idx + 64 < npolys {
            continue;
        }
        let mut o = base(idx);
        let (pa, pb, pc) = siqs::vhook::poly_abc(&pol);
        o.insert("a".into(), di256(&pa));
        o.insert("b".into(), di256(&pb));
        o.insert("c".into(), di256(&pc));
        o.insert("kind".into(), json!(siqs::vhook::poly_kind(&pol)));
        o.insert("pidx".into(), json!(siqs::vhook::poly_idx(&pol)));
        o.insert("afac".into(), json!(afac));
        let sel = sample_primes(rng, fb, &aidx, full_max);
        let r1 = siqs::vhook::poly_r1p(&pol);
        let r2 = siqs::vhook::poly_r2p(&pol);
        o.insert("ps".into(), json!(sel.iter().map(|&i| fb.p(i)).collect::<Vec<_>>()));
        o.insert("r1".into(), json!(sel.iter().map(|&i| r1[i]).collect::<Vec<_>>()));
        o.insert("r2".into(), json!(sel.iter().map(|&i| r2[i]).collect::<Vec<_>>()));
        budget.checks += sel.len() as u64;
        // sampled evaluations
        let m2 = (mm / 2) as i64;
        let mut xs: Vec<i64> = vec![0, 1, -1, start_offset, start_offset + mm as i64 - 1];
        for _ in 0..2 {
            xs.push(start_offset + rng.gen_range(0..mm as i64));
        }
        if unit {
            xs.retain(|&x| x >= 0);
        }
        let _ = m2;
        let mut xn = vec![];
        let mut xa = vec![];
        let mut evs = vec![];
        for &x in &xs {
            match guard(|| siqs::vhook::poly_eval(&pol, x)) {
                Ok((v, y)) => {
                    xn.push(x < 0);
                    xa.push(du(x.unsigned_abs()));
                    evs.push(json!({"v": di256(&v), "y": di256(&y)}));
                }
                Err(e) => {
                    merge_err(&mut o, e);
                    o.insert("stage".into(), json!("eval"));
                }
            }
        }
        o.insert("xn".into(), json!(xn));
        o.insert("xa".into(), json!(xa));
        o.insert("ev".into(), json!(evs));
        out.ev(Value::Object(o));
    }
}

#[allow(clippy::too_many_arguments)]
fn siqs_case(
    out: &mut Out,
    rng: &mut StdRng,
    case: &str,
    n: &Int, // signed: negative for the class group variant
    fbsize: u32,
    nfacs: usize,
    mm: usize,
    want: usize,
    full_max: usize,
    max_fams: usize,
    budget: &mut Budget,
) {
    let fb = match guard(|| FBase::new(*n, fbsize)) {
        Ok(f) => f,
        Err(e) => {
            let mut o = Map::new();
            o.insert("op".into(), json!("fbase"));
            o.insert("case".into(), json!(case));
            o.insert("n".into(), di(n));
            merge_err(&mut o, e);
            out.ev(Value::Object(o));
            return;
        }
    };
    log_fbase(out, case, "siqs", n, fbsize, &fb, 640);
    let sel = guard(|| {
        let f = siqs::select_siqs_factors(&fb, n, nfacs, mm, Verbosity::Silent);
        let a_s = siqs::select_a(&f, want, Verbosity::Silent);
        (f, a_s)
    });
    let (factors, a_ints) = match sel {
        Ok(x) => x,
        Err(e) => {
            // selection of A is not part of this property (C20 checks its preconditions): record only
            let mut o = Map::new();
            o.insert("op".into(), json!("note"));
            o.insert("case".into(), json!(case));
            o.insert("what".into(), json!("select_a failed"));
            o.insert("detail".into(), e);
            out.ev(Value::Object(o));
            return;
        }
    };
    if a_ints.is_empty() {
        return;
    }
    let mut fams: Vec<(String, Uint)> = vec![];
    fams.push(("first".into(), a_ints[0]));
    if a_ints.len() > 2 {
        fams.push(("mid".into(), a_ints[a_ints.len() / 2]));
    }
    if a_ints.len() > 1 {
        fams.push(("last".into(), a_ints[a_ints.len() - 1]));
    }
    if nfacs >= 1 && nfacs <= 4 && factors.factors.len() >= nfacs {
        // As made of the extremes of the candidate pool (smallest / largest primes)
        let lo: Uint = factors.factors[..nfacs].iter().map(|p| Uint::from(p.p)).product();
        let hi: Uint = factors.factors[factors.factors.len() - nfacs..].iter().map(|p| Uint::from(p.p)).product();
        fams.push(("lowest".into(), lo));
        fams.push(("highest".into(), hi));
    }
    fams.truncate(max_fams);
    let unit = nfacs == 0;
    for (tag, a) in fams {
        siqs_family(out, rng, case, &tag, n, &fb, &factors, &a, mm, unit, full_max, budget);
    }
}

fn mpqs_case(out: &mut Out, rng: &mut StdRng, case: &str, n: &Uint, fbsize: u32, mm: i64, ds: Vec<(u128, Uint)>, full_max: usize, budget: &mut Budget) {
    let nint = Int::cast_from(*n);
    let fb = match guard(|| FBase::new(nint, fbsize)) {
        Ok(f) => f,
        Err(_) => return,
    };
    log_fbase(out, case, "mpqs", &nint, fbsize, &fb, 640);
    let inverters: Vec<_> = (0..fb.len()).map(|i| arith::Inverter::new(fb.p(i))).collect();
    // all chunks go through ONE workspace, as in the real polynomial block loop (stale entries of a previous
    // chunk must not leak into the next one)
    let all_chunks: Vec<Vec<u128>> = ds.chunks(16).map(|c| c.iter().map(|x| x.0).collect()).collect();
    let mut seq = guard(|| mpqs::vhook::batch_dinv_seq(n, &fb, all_chunks.clone())).ok();
    for (ci, chunk) in ds.chunks(16).enumerate() {
        let dvals: Vec<u128> = chunk.iter().map(|x| x.0).collect();
        let taken = seq.as_mut().and_then(|v| if ci < v.len() { Some(std::mem::take(&mut v[ci])) } else { None });
        let dinvs = match taken.map(Ok).unwrap_or_else(|| guard(|| mpqs::vhook::batch_dinv(n, &fb, dvals.clone()))) {
            Ok(v) => v,
            Err(e) => {
                let mut o = Map::new();
                o.insert("op".into(), json!("mpqs_poly"));
                o.insert("case".into(), json!(case));
                o.insert("stage".into(), json!("batch_inversion"));
                merge_err(&mut o, e);
                out.ev(Value::Object(o));
                continue;
            }
        };
        for (j, (d, r)) in chunk.iter().enumerate() {
            let mut o = Map::new();
            o.insert("op".into(), json!("mpqs_poly"));
            o.insert("case".into(), json!(case));
            o.insert("n".into(), dn(n));
            o.insert("nd".into(), json!(n.to_string()));
            o.insert("dd".into(), json!(d.to_string()));
            o.insert("d".into(), du128(*d));
            o.insert("dprime".into(), json!(*d < (1u128 << 64) && is_prime_u64(*d as u64)));
            o.insert("moff".into(), json!(mm / 2));
            let pol = match guard(|| mpqs::make_poly(n, *d, r)) {
                Ok(p) => p,
                Err(e) => {
                    o.insert("stage".into(), json!("make_poly"));
                    merge_err(&mut o, e);
                    out.ev(Value::Object(o));
                    continue;
                }
            };
            o.insert("a".into(), dn(&pol.a));
            o.insert("b".into(), dn(&pol.b));
            o.insert("c".into(), di(&mpqs::vhook::poly_c(&pol)));
            o.insert("bb".into(), dn(&mpqs::vhook::poly_bb(&pol)));
            o.insert("dinv".into(), dn(&mpqs::vhook::poly_dinv(&pol)));
            let divs: Vec<usize> = (0..fb.len()).filter(|&i| d % fb.p(i) as u128 == 0).collect();
            let sel = sample_primes(rng, &fb, &divs, full_max);
            let start_offset = -(mm / 2);
            let mut r1 = vec![];
            let mut r2 = vec![];
            let mut dp = vec![];
            let mut failed = None;
            for &i in &sel {
                let dinv = dinvs[j][i];
                match guard(|| pol.prepare_prime(fb.p(i), fb.r(i), fb.div(i), &inverters[i], dinv, start_offset as i32)) {
                    Ok((a, b)) => {
                        r1.push(a);
                        r2.push(b);
                        dp.push(dinv);
                    }
                    Err(e) => {
                        failed = Some((e, fb.p(i)));
                        break;
                    }
                }
            }
            if let Some((e, p)) = failed {
                o.insert("stage".into(), json!("prepare_prime"));
                o.insert("p".into(), json!(p));
                merge_err(&mut o, e);
                out.ev(Value::Object(o));
                continue;
            }
            budget.checks += sel.len() as u64;
            o.insert("ps".into(), json!(sel.iter().map(|&i| fb.p(i)).collect::<Vec<_>>()));
            o.insert("r1".into(), json!(r1));
            o.insert("r2".into(), json!(r2));
            o.insert("dp".into(), json!(dp));
            let mut xs: Vec<i64> = vec![0, 1, -1, start_offset, -start_offset - 1];
            for _ in 0..2 {
                xs.push(start_offset + rng.gen_range(0..mm));
            }
            let mut xn = vec![];
            let mut xa = vec![];
            let mut evs = vec![];
            for &x in &xs {
                match guard(|| pol.eval(x)) {
                    Ok((v, y)) => {
                        xn.push(x < 0);
                        xa.push(du(x.unsigned_abs()));
                        evs.push(json!({"v": di(&v), "y": dn(&y)}));
                    }
                    Err(e) => {
                        merge_err(&mut o, e);
                        o.insert("stage".into(), json!("eval"));
                    }
                }
            }
            o.insert("xn".into(), json!(xn));
            o.insert("xa".into(), json!(xa));
            o.insert("ev".into(), json!(evs));
            out.ev(Value::Object(o));
        }
    }
}

fn qs_case(out: &mut Out, rng: &mut StdRng, case: &str, n: &Uint, fbsize: u32, full_max: usize, budget: &mut Budget) {
    let nint = Int::cast_from(*n);
    let fb = match guard(|| FBase::new(nint, fbsize)) {
        Ok(f) => f,
        Err(_) => return,
    };
    log_fbase(out, case, "qs", &nint, fbsize, &fb, 640);
    let mut o = Map::new();
    o.insert("op".into(), json!("qs_roots"));
    o.insert("case".into(), json!(case));
    o.insert("n".into(), dn(n));
    o.insert("nd".into(), json!(n.to_string()));
    let qs = match guard(|| qsieve::SieveQS::new(*n, &fb, fb.bound() as u64, false)) {
        Ok(q) => q,
        Err(e) => {
            merge_err(&mut o, e);
            out.ev(Value::Object(o));
            return;
        }
    };
    let (nsqrt, c0) = qsieve::vhook::nsqrt(&qs);
    o.insert("nsqrt".into(), di(&nsqrt));
    o.insert("c0".into(), di(&c0));
    o.insert("odds".into(), json!(qsieve::vhook::only_odds(&qs)));
    let sel = sample_primes(rng, &fb, &[], full_max);
    let (mut f1, mut f2, mut b1, mut b2) = (vec![], vec![], vec![], vec![]);
    let r = guard(|| {
        for &i in &sel {
            let (x, y) = qsieve::vhook::prepare_prime_fwd(&qs, i);
            f1.push(x);
            f2.push(y);
            let (x, y) = qsieve::vhook::prepare_prime_bck(&qs, i);
            b1.push(x);
            b2.push(y);
        }
    });
    if let Err(e) = r {
        merge_err(&mut o, e);
        out.ev(Value::Object(o));
        return;
    }
    budget.checks += 2 * sel.len() as u64;
    o.insert("ps".into(), json!(sel.iter().map(|&i| fb.p(i)).collect::<Vec<_>>()));
    o.insert("f1".into(), json!(f1));
    o.insert("f2".into(), json!(f2));
    o.insert("b1".into(), json!(b1));
    o.insert("b2".into(), json!(b2));
    out.ev(Value::Object(o));
}

pub fn run(args: &Args) -> i32 {
    let seed = arg_u64(args, "seed", 1);
    let thorough = arg_str(args, "tier", "quick") == "thorough";
    let mut out = Out::create(arg_str(args, "out", "trace.ndjson"));
    let mut rng = rng_for(seed, "c12");
    let mut budget = Budget { checks: 0 };
    let full_max = 600;

    // ---------------------------------------------------------------- SIQS
    let sizes: Vec<u32> = if thorough {
        vec![20, 24, 33, 40, 48, 56, 64, 65, 72, 80, 89, 90, 100, 110, 119, 120, 130, 140, 149, 150, 160, 169, 170, 180, 190, 199, 200, 210,
             224, 256, 300, 330, 400]
    } else {
        vec![20, 33, 48, 64, 65, 80, 89, 90, 110, 119, 120, 140, 150, 165, 170, 190, 200]
    };
    for (si, &bits) in sizes.iter().enumerate() {
        for (ri, r8) in [1u64, 3, 5, 7].into_iter().enumerate() {
            let n0 = gen_n(&mut rng, bits, r8);
            // without multiplier, with the selected one, and (rotating) an even one so that k n covers
            // the even classes modulo 8 as well
            let (kauto, _) = fbase::select_multiplier(n0);
            let mut ks = vec![1u32, kauto];
            if (si + ri) % 4 == 0 {
                ks.push([2u32, 4, 6, 8][(si / 4 + ri) % 4]);
            }
            ks.dedup();
            for k in ks {
                let n = n0 * Uint::from(k);
                let nint = Int::cast_from(n);
                let case = format!("siqs/{}/{}/k{}", bits, r8, k);
                let nfacs = siqs::vhook::nfactors(&n) as usize;
                let mm = siqs::vhook::interval_size(&n, false) as usize;
                // (the size of the base does not matter for the polynomials beyond holding the factors of A)
                let fbsize = siqs::vhook::fb_size(&n, false).min(20000);
                let want = siqs::vhook::a_value_count(&n).min(40);
                // large families are expensive to validate: fewer of them
                let max_fams = if nfacs >= 8 { 1 } else if nfacs >= 6 { 2 } else { 5 };
                let max_fams = if thorough { max_fams + 1 } else { max_fams };
                if !thorough && nfacs >= 7 && k != 1 && r8 != 1 {
                    continue;
                }
                siqs_case(&mut out, &mut rng, &case, &nint, fbsize, nfacs, mm, want, full_max, max_fams, &mut budget);
            }
        }
    }
    // quick tier: one family near 300 bits (A above 2^127: every quantity derived from A, B or the roots of A's
    // factors has left the 128-bit range; the thorough tier walks 300, 330 and 400 bits in all classes)
    if !thorough {
        let (bits, r8) = (300u32, 7u64);
        let n = gen_n(&mut rng, bits, r8);
        let nint = Int::cast_from(n);
        let case = format!("siqs/{}/{}/k1", bits, r8);
        let nfacs = siqs::vhook::nfactors(&n) as usize;
        let mm = siqs::vhook::interval_size(&n, false) as usize;
        let fbsize = siqs::vhook::fb_size(&n, false).min(20000);
        let want = siqs::vhook::a_value_count(&n).min(40);
        siqs_case(&mut out, &mut rng, &case, &nint, fbsize, nfacs, mm, want, full_max, 1, &mut budget);
    }
    // class group variant: negative discriminants, unit form (nfacs = 0) and small families
    for &(bits, nfacs, blocks) in &[(24u32, 0usize, 16usize), (30, 0, 16), (40, 2, 2), (64, 2, 2), (70, 3, 3), (100, 4, 3)] {
        for r8 in [1u64, 3, 5, 7] {
            let n0 = gen_n(&mut rng, bits, r8);
            // D = -n0 (then D mod 4 is 3, 1, 3, 1: both kinds) and, for the even case, D = -4 n0 / 4
            let d = -Int::cast_from(n0);
            let case = format!("cls/{}/{}", bits, r8);
            let fbsize = yamaquasi::params::clsgrp_fb_size(bits, false);
            siqs_case(&mut out, &mut rng, &case, &d, fbsize, nfacs, blocks * 32768, 8, full_max, 3, &mut budget);
        }
    }

    // ---------------------------------------------------------------- MPQS
    // tiny inputs (24..32 bits): D^2 < n < D^4, so that B (a square root of n modulo D^2) exceeds sqrt(n) and C > 0
    let msizes: Vec<u32> = if thorough { vec![24, 28, 32, 36, 40, 50, 64, 80, 100, 120, 150, 180, 220, 260, 300] } else { vec![28, 32, 40, 64, 100, 140, 200] };
    for &bits in &msizes {
        for r8 in [1u64, 3, 5, 7] {
            let n0 = gen_n(&mut rng, bits, r8);
            let (kauto, _) = fbase::select_multiplier(n0);
            for k in if kauto == 1 || r8 % 4 == 3 { vec![1] } else { vec![1, kauto] } {
                let n = n0 * Uint::from(k);
                let case = format!("mpqs/{}/{}/k{}", bits, r8, k);
                let mm = mpqs::vhook::mpqs_interval_size(&n);
                let fbsize = yamaquasi::params::mpqs_fb_size(bits, false);
                // D values around the ideal one, as mpqs() does
                let a_target: Uint = if n % Uint::from(4u64) == Uint::ONE {
                    arith::isqrt(n >> 1u32) / Uint::from(mm as u64 / 2)
                } else {
                    arith::isqrt(n << 1u32) / Uint::from(mm as u64 / 2)
                };
                let d_target = std::cmp::max(Uint::from(3u64), arith::isqrt(a_target));
                let dt = u128::cast_from(d_target);
                let mut ds = match guard(|| mpqs::sieve_for_polys(&n, dt - std::cmp::min(dt / 10, 200), 1200)) {
                    Ok(v) => v,
                    Err(_) => vec![],
                };
                ds.truncate(if thorough { 12 } else { 5 });
                // small D values (possibly inside the factor base): D^2 < n as mpqs() requires (for tiny n most of
                // them have C > 0) and C = (B^2 - n) / 4 D^2 within 256 bits
                if bits <= 220 {
                    if let Ok(mut v) = guard(|| mpqs::sieve_for_polys(&n, 3, 400)) {
                        v.retain(|(d, _)| Uint::from(*d as u64) * Uint::from(*d as u64) < n);
                        if bits < 40 {
                            // the largest ones (C > 0) and the smallest ones
                            let m = v.len();
                            let tail: Vec<_> = v.iter().skip(m.saturating_sub(6)).cloned().collect();
                            v.truncate(2);
                            v.extend(tail);
                        } else {
                            v.truncate(3);
                        }
                        ds.extend(v);
                    }
                }
                mpqs_case(&mut out, &mut rng, &case, &n, fbsize, mm, ds, full_max, &mut budget);
            }
        }
    }
    // several chunks of 16 polynomials through one workspace, with D inside the factor base in every chunk: the
    // 1/D mod p table is reused from chunk to chunk and the entry for p | D must be reset each time
    for (bits, r8) in [(64u32, 1u64), (72, 7)] {
        let n = gen_n(&mut rng, bits, r8);
        let case = format!("mpqs/chunks/{}/{}", bits, r8);
        let mm = mpqs::vhook::mpqs_interval_size(&n);
        let fbsize = yamaquasi::params::mpqs_fb_size(bits, false);
        if let Ok(mut v) = guard(|| mpqs::sieve_for_polys(&n, 3, 6000)) {
            // D^4 < n keeps C < 0 (the domain of the p | D branch)
            v.retain(|(d, _)| { let d2 = Uint::from(*d as u64) * Uint::from(*d as u64); d2 * d2 < n });
            v.truncate(if thorough { 80 } else { 40 });
            mpqs_case(&mut out, &mut rng, &case, &n, fbsize, mm, v, full_max, &mut budget);
        }
    }
    // a composite D that passes the pseudo-square test: D = 211 * 229 = 48319 = 3 mod 4 and n = 1 mod D
    // (sizes such that D is not far above the ideal value: the code relies on B^2 < n, i.e. C < 0)
    for &bits in &[90u32, 120] {
        for r4 in [1u64, 3] {
            let d: u64 = 211 * 229;
            let mut n;
            loop {
                let k = rand_bits(&mut rng, bits - 16);
                n = Uint::ONE + k * Uint::from(d);
                if n.bits() == bits && n.digits()[0] % 4 == r4 {
                    break;
                }
            }
            let case = format!("mpqs/composite-d/{}/{}", bits, r4);
            let ds = match guard(|| mpqs::sieve_for_polys(&n, d as u128, 1)) {
                Ok(v) => v,
                Err(_) => vec![],
            };
            let mm = mpqs::vhook::mpqs_interval_size(&n);
            mpqs_case(&mut out, &mut rng, &case, &n, 120, mm, ds, full_max, &mut budget);
        }
    }

    // ---------------------------------------------------------------- classical QS
    let qsizes: Vec<u32> = if thorough { vec![20, 32, 48, 64, 80, 100, 120, 150, 200, 256, 330, 400] } else { vec![20, 40, 64, 100, 160, 250] };
    for &bits in &qsizes {
        for r8 in [1u64, 3, 5, 7] {
            let n0 = gen_n(&mut rng, bits, r8);
            let (kauto, _) = fbase::select_multiplier(n0);
            for k in if kauto == 1 { vec![1] } else { vec![1, kauto] } {
                let n = n0 * Uint::from(k);
                let case = format!("qs/{}/{}/k{}", bits, r8, k);
                let fbsize = yamaquasi::params::qs_fb_size(bits, false).min(if thorough { 20000 } else { 3000 });
                qs_case(&mut out, &mut rng, &case, &n, fbsize, full_max, &mut budget);
            }
        }
    }
    let n = out.finish();
    println!("{}", json!({"events": n, "prime_checks": budget.checks}));
    0
}
