//! Command-line layer: runs the real `ymqs` binary (built by bin/check from the tree under test, without the
//! verification cfg) once per invocation class enumerated by spec/factor/CliShapes.tla and records, per
//! invocation, one event for spec/factor/CliTrace.tla:
//!
//!   {"op":"cli","case":..,"shape":..,"argv":[..],"cls":{orphans,help,num,size,verb,mode},"n":digits?,"nd":dec?,
//!    "status":int,"signal":int,"timeout":bool,"out":[digits..],"outd":[dec..],"outbad":int,"why":..,"ploc":..,"pmsg":..}
//!
//! `cls` is what the driver knows about the arguments by construction (never read back from the program).
//! `why` is read off the exit status and stderr: "usage" (status 0, usage text), "answer" (status 0), otherwise the
//! declared refusal named by the panic message ("number", "size", "verbosity", "mode", "failure") or "internal".
//!
//!   ymqv cli --bin <path to ymqs> --shapes <ndjson> --seed N --jobs J --out trace.ndjson [--only <case>]
use std::io::Read;
use std::process::{Command, Stdio};
use std::str::FromStr;
use std::time::{Duration, Instant};

use rand::rngs::StdRng;
use rand::Rng;
use serde_json::{json, Value};

use crate::drivers::factor_common::{plain_prime, smooth_prime, SMALLS};
use crate::gen::{rand_bits, rng_for, Uint};
use crate::trace::{arg_str, arg_u64, dn, read_ndjson, Args, Out};

const ALGOS: [&str; 10] = ["auto", "rho", "squfof", "pm1", "ecm", "ecm128", "qs", "qs64", "mpqs", "siqs"];
const VERBS: [&str; 8] = ["silent", "info", "verbose", "debug", "0", "1", "2", "3"];

struct Inv {
    case: String,
    shape: Value,
    argv: Vec<String>,
    cls: Value,
    n: Option<Uint>,
}

/// NUMBER argument for a shape: (text, value when it is a decimal of at most 1024 bits, num class, size class)
fn number(rng: &mut StdRng, num: &str, bits: u32) -> (String, Option<Uint>, &'static str, &'static str) {
    let size_of = |n: &Uint| if n.bits() <= 500 { "le500" } else { "gt500" };
    let dec = |n: Uint| {
        let s = size_of(&n);
        (n.to_string(), Some(n), "dec", s)
    };
    match num {
        "zero" => dec(Uint::ZERO),
        "one" => dec(Uint::ONE),
        "two" => dec(Uint::from(2u64)),
        "lead_zeros" => {
            let n = plain_prime(rng, 20) * plain_prime(rng, 21);
            (format!("000{}", n), Some(n), "dec", "le500")
        }
        "pq" => dec(plain_prime(rng, bits / 2) * plain_prime(rng, bits - bits / 2)),
        "p2q" => {
            let p = plain_prime(rng, bits / 3);
            dec(p * p * plain_prime(rng, bits - 2 * (bits / 3)))
        }
        "prime" => dec(plain_prime(rng, bits)),
        "smooth" => {
            let mut n = Uint::ONE;
            while n.bits() < bits {
                n = n * Uint::from(SMALLS[rng.gen_range(0..SMALLS.len())]);
            }
            dec(n)
        }
        "qP" => {
            let p = plain_prime(rng, bits - 30);
            loop {
                let n = p * Uint::from(smooth_prime(rng, 30));
                if n.bits() == bits {
                    return dec(n);
                }
            }
        }
        // above the limit also after the library's trial division (no prime factor below 200): whoever refuses it,
        // main() or factor(), nothing feasible is left to compute
        "over_random" if bits <= 1024 => loop {
            let n = rand_bits(rng, bits) | Uint::ONE;
            if SMALLS.iter().all(|&p| !(n % Uint::from(p)).is_zero()) {
                return dec(n);
            }
        },
        "over_random" => {
            // a decimal above 2^bits >= 2^1024: 1 followed by enough random digits
            let k = (bits as f64 * 0.30103).ceil() as usize + 1;
            let mut s = String::from("1");
            for _ in 0..k {
                s.push(char::from(b'0' + rng.gen_range(0..10u8)));
            }
            (s, None, "dec", "gt1024")
        }
        "empty" => (String::new(), None, "garbage", "le500"),
        "letters" => ("1234abc".into(), None, "garbage", "le500"),
        "negative" => ("-35".into(), None, "garbage", "le500"),
        "hex" => ("0x1f".into(), None, "garbage", "le500"),
        "float" => ("1e3".into(), None, "garbage", "le500"),
        "trailing" => ("35 ".into(), None, "garbage", "le500"),
        "unicode" => ("\u{ff13}\u{ff15}".into(), None, "garbage", "le500"),
        _ => panic!("unknown number shape {}", num),
    }
}

fn build(shapes: &[Value], seed: u64) -> Vec<Inv> {
    let mut v = vec![];
    for (si, sh) in shapes.iter().enumerate() {
        let mut rng = rng_for(seed, &format!("cli/{}", si));
        let s = |k: &str| sh[k].as_str().unwrap().to_string();
        let bits = sh["bits"].as_u64().unwrap() as u32;
        let (text, n, numcls, sizecls) = number(&mut rng, &s("num"), bits);
        let (mode, verbose, extra) = (s("mode"), s("verbose"), s("extra"));
        let threads = sh["threads"].as_u64().unwrap();
        let orphans = sh["orphans"].as_u64().unwrap();
        let mut argv: Vec<String> = vec![];
        if !mode.is_empty() {
            argv.extend(["--mode".to_string(), mode.clone()]);
        }
        if !verbose.is_empty() {
            argv.extend(["--verbose".to_string(), verbose.clone()]);
        }
        if threads > 0 {
            argv.extend(["--threads".to_string(), threads.to_string()]);
        }
        match extra.as_str() {
            "" => {}
            "help" => {} // last argument (an option followed by a plain word takes it as its value)
            "dbl_true" => argv.extend(["--use-double".to_string(), "true".to_string()]),
            "dbl_false" => argv.extend(["--use-double".to_string(), "false".to_string()]),
            "large_50" => argv.extend(["--large".to_string(), "50".to_string()]),
            "fb_400" => argv.extend(["--fb".to_string(), "400".to_string()]),
            x => panic!("unknown extra {}", x),
        }
        if orphans >= 1 {
            argv.push(text.clone());
        }
        if orphans >= 2 {
            argv.push("17".into());
        }
        if extra == "help" {
            argv.push("--help".into());
        }
        let cls = json!({
            "orphans": orphans, "help": extra == "help", "num": numcls, "size": sizecls,
            "verb": if verbose.is_empty() || VERBS.contains(&verbose.as_str()) { "ok" } else { "bogus" },
            "mode": if mode.is_empty() || ALGOS.contains(&mode.as_str()) { "ok" } else { "bogus" },
        });
        v.push(Inv { case: format!("cli/{}", si), shape: sh.clone(), argv, cls, n });
    }
    v
}

fn panic_info(stderr: &str) -> (String, String) {
    // thread 'main' (123) panicked at src/bin/ymqs.rs:36:9:\n<message>
    if let Some(i) = stderr.find("panicked at ") {
        let rest = &stderr[i + 12..];
        let line = rest.lines().next().unwrap_or("");
        let file = line.split(':').next().unwrap_or("").trim().to_string();
        let msg: String = rest.lines().skip(1).take(2).collect::<Vec<_>>().join(" ");
        // older format: panicked at 'msg', file:line:col
        if file.starts_with('\'') {
            let f = line.rsplit(", ").next().unwrap_or("").split(':').next().unwrap_or("").to_string();
            return (f, line.to_string());
        }
        return (file, msg);
    }
    (String::new(), String::new())
}

fn run_one(bin: &str, inv: &Inv, deadline: f64) -> Value {
    let mut ev = json!({"op": "cli", "case": inv.case, "shape": inv.shape, "argv": inv.argv, "cls": inv.cls});
    if let Some(n) = &inv.n {
        ev["n"] = dn(n);
        ev["nd"] = json!(n.to_string());
    }
    let child = Command::new(bin)
        .args(&inv.argv)
        .env("RUST_BACKTRACE", "0")
        .stdin(Stdio::null())
        .stdout(Stdio::piped())
        .stderr(Stdio::piped())
        .spawn();
    let mut child = match child {
        Ok(c) => c,
        Err(e) => panic!("cannot run {}: {}", bin, e),
    };
    // readers in threads so that a full pipe never blocks the program
    let mut so = child.stdout.take().unwrap();
    let mut se = child.stderr.take().unwrap();
    let t1 = std::thread::spawn(move || {
        let mut s = Vec::new();
        let _ = so.read_to_end(&mut s);
        String::from_utf8_lossy(&s).to_string()
    });
    let t2 = std::thread::spawn(move || {
        let mut s = Vec::new();
        let _ = se.read_to_end(&mut s);
        String::from_utf8_lossy(&s).to_string()
    });
    let t0 = Instant::now();
    let mut timeout = false;
    let status = loop {
        match child.try_wait() {
            Ok(Some(st)) => break st,
            Ok(None) => {
                if t0.elapsed().as_secs_f64() > deadline {
                    timeout = true;
                    let _ = child.kill();
                    break child.wait().unwrap();
                }
                std::thread::sleep(Duration::from_millis(5));
            }
            Err(e) => panic!("wait: {}", e),
        }
    };
    let stdout = t1.join().unwrap();
    let stderr = t2.join().unwrap();
    let signal = {
        use std::os::unix::process::ExitStatusExt;
        if timeout { 0 } else { status.signal().unwrap_or(0) }
    };
    let code = status.code().unwrap_or(-1);
    let mut out = vec![];
    let mut outd = vec![];
    let mut outbad = 0;
    for line in stdout.lines() {
        match Uint::from_str(line) {
            Ok(x) if !line.is_empty() && line.bytes().all(|b| b.is_ascii_digit()) => {
                out.push(dn(&x));
                outd.push(line.to_string());
            }
            _ => outbad += 1,
        }
    }
    let (ploc, pmsg) = panic_info(&stderr);
    let why = if code == 0 && stderr.trim_start().starts_with("Usage:") {
        "usage"
    } else if code == 0 {
        "answer"
    } else if pmsg.contains("could not read decimal number") {
        "number"
    } else if pmsg.contains("exceeds") && pmsg.contains("bits limit") {
        "size"
    } else if pmsg.contains("invalid verbosity") {
        "verbosity"
    } else if pmsg.contains("invalid algo") {
        "mode"
    } else if pmsg.contains("FactoringFailure") {
        "failure"
    } else {
        "internal"
    };
    ev["status"] = json!(if timeout { -1 } else { code });
    ev["signal"] = json!(signal);
    ev["timeout"] = json!(timeout);
    ev["out"] = Value::from(out);
    ev["outd"] = json!(outd);
    ev["outbad"] = json!(outbad);
    ev["why"] = json!(why);
    ev["ploc"] = json!(ploc);
    ev["pmsg"] = json!(pmsg.chars().take(200).collect::<String>());
    ev["secs"] = json!((t0.elapsed().as_secs_f64() * 1000.0).round() / 1000.0);
    ev
}

pub fn run(args: &Args) -> i32 {
    let bin = arg_str(args, "bin", "").to_string();
    assert!(!bin.is_empty(), "--bin <path to ymqs> is required");
    let seed = arg_u64(args, "seed", 1);
    let jobs = arg_u64(args, "jobs", 8).max(1) as usize;
    let deadline = arg_u64(args, "deadline", 120) as f64;
    let shapes = read_ndjson(arg_str(args, "shapes", "shapes.ndjson"));
    let only = args.get("only").cloned();
    let mut invs = build(&shapes, seed);
    if let Some(o) = only {
        invs.retain(|i| i.case == o);
    }
    let mut out = Out::create(arg_str(args, "out", "trace.ndjson"));
    let next = std::sync::atomic::AtomicUsize::new(0);
    let results: Vec<std::sync::Mutex<Option<Value>>> = invs.iter().map(|_| std::sync::Mutex::new(None)).collect();
    std::thread::scope(|s| {
        for _ in 0..jobs.min(invs.len().max(1)) {
            s.spawn(|| loop {
                let i = next.fetch_add(1, std::sync::atomic::Ordering::SeqCst);
                if i >= invs.len() {
                    break;
                }
                let ev = run_one(&bin, &invs[i], deadline);
                *results[i].lock().unwrap() = Some(ev);
            });
        }
    });
    for r in results {
        out.ev(r.into_inner().unwrap().unwrap());
    }
    let n = out.finish();
    println!("{}", json!({"events": n}));
    0
}
