//! C18 driver: class groups of negative fundamental discriminants.
//!
//! Cases come from spec/classgroup/ClassGroupShapes.tla (every fundamental |D| < bound, size/residue
//! classes for seeded discriminants) plus the discriminants of the repository's own test.  For every
//! case `classgroup::classgroup` is run (with and without a thread pool) with an output directory;
//! the relations handed to the relation store are recorded by the hook in `sieve_block_poly`
//! together with the sieve value u they come from.  For a run that returns a result the driver
//! emits one `result` event (class number, invariants, coordinates, `classnumber` file) and one
//! `line` event per line of `relations.sieve` (with the sieve value of the logged relation that has
//! the same factor list, square-root witnesses computed here, and the coordinates of its primes).
//! Nothing is judged here: ClassGroupTrace.tla decides.

use std::collections::{BTreeMap, HashMap};
use std::path::{Path, PathBuf};
use std::str::FromStr;

use rand::rngs::StdRng;
use rand::Rng;
use serde_json::{json, Value};

use yamaquasi::relationcls::ClassGroup;
use yamaquasi::{classgroup, Int, Preferences, Verbosity};

use crate::gen::{is_prime_u64, rand_bits, rng_for, Pool, Uint};
use crate::trace::*;

/// discriminants of the repository's own test (src/classgroup.rs::test_classgroup)
const SUITE: &[&str] = &[
    "103142932",
    "10148",
    "424708",
    "1411012",
    "2402548",
    "131675478501979154852",
    "4133106580052",
    "277747586393177609383447877774824905287",
    "1547792612939506766277963208426820605844",
];

struct Case {
    name: String,
    n: Uint, // |D|
    /// prime factorisation of |D| (with multiplicity) as certificate chains, when known
    facs: Option<Vec<Value>>,
    shape: Value,
}

// ---------------------------------------------------------------------------------------------
// own arithmetic (independent of the library)
// ---------------------------------------------------------------------------------------------

fn mulmod64(a: u64, b: u64, m: u64) -> u64 {
    ((a as u128 * b as u128) % m as u128) as u64
}

fn powmod64(mut b: u64, mut e: u64, m: u64) -> u64 {
    let mut r = 1 % m;
    b %= m;
    while e > 0 {
        if e & 1 == 1 {
            r = mulmod64(r, b, m);
        }
        b = mulmod64(b, b, m);
        e >>= 1;
    }
    r
}

/// a square root of a modulo the odd prime p (Tonelli-Shanks), None if a is not a residue
fn sqrt_mod(a: u64, p: u64) -> Option<u64> {
    let a = a % p;
    if a == 0 {
        return Some(0);
    }
    if powmod64(a, (p - 1) / 2, p) != 1 {
        return None;
    }
    if p % 4 == 3 {
        return Some(powmod64(a, (p + 1) / 4, p));
    }
    let mut q = p - 1;
    let mut s = 0;
    while q % 2 == 0 {
        q /= 2;
        s += 1;
    }
    let mut z = 2;
    while powmod64(z, (p - 1) / 2, p) != p - 1 {
        z += 1;
    }
    let mut m = s;
    let mut c = powmod64(z, q, p);
    let mut t = powmod64(a, q, p);
    let mut r = powmod64(a, (q + 1) / 2, p);
    while t != 1 {
        let mut i = 0;
        let mut tt = t;
        while tt != 1 {
            tt = mulmod64(tt, tt, p);
            i += 1;
            if i == m {
                return None;
            }
        }
        let b = powmod64(c, 1 << (m - i - 1), p);
        m = i;
        c = mulmod64(b, b, p);
        t = mulmod64(t, c, p);
        r = mulmod64(r, b, p);
    }
    Some(r)
}

fn umod(n: &Uint, p: u64) -> u64 {
    (*n % Uint::from(p)).digits()[0]
}

/// b+ of the prime form of norm p for the discriminant D = -n: the b in [0, p] with b = D mod 2 and
/// b^2 = D mod 4p; -1 if there is none (p inert, or not a prime)
fn b_plus(n: &Uint, p: u64) -> i64 {
    let n8 = n.digits()[0] & 7; // |D| mod 8
    let dodd = n8 & 1 == 1;
    if p == 2 {
        // D = -n mod 8
        return match (8 - n8) & 7 {
            1 => 1,
            0 => 0,
            4 => 2,
            _ => -1,
        };
    }
    if p < 2 || !is_prime_u64(p) {
        return -1;
    }
    let dm = (p - umod(n, p)) % p; // D mod p
    if dm == 0 {
        return if dodd { p as i64 } else { 0 };
    }
    match sqrt_mod(dm, p) {
        None => -1,
        Some(r) => {
            let r = if (r & 1 == 1) == dodd { r } else { p - r };
            r as i64
        }
    }
}

/// trial factorisation of a number below 2^63 (own code); None if it does not finish with
/// prime factors below 2^31
fn factor_small(mut m: u64) -> Option<Vec<u64>> {
    let mut res = vec![];
    let mut p = 2u64;
    while p * p <= m && p < (1 << 21) {
        while m % p == 0 {
            res.push(p);
            m /= p;
        }
        p += if p == 2 { 1 } else { 2 };
    }
    if m > 1 {
        if m < (1 << 31) && is_prime_u64(m) {
            res.push(m);
        } else {
            return None;
        }
    }
    Some(res)
}

/// fundamental: -n = 1 mod 4 squarefree, or -n = 4m' with m' = 2, 3 mod 4 squarefree
fn is_fundamental_small(n: u64) -> bool {
    let sqf = |m: u64| {
        let f = factor_small(m);
        match f {
            None => false,
            Some(f) => f.windows(2).all(|w| w[0] != w[1]),
        }
    };
    if n % 4 == 3 {
        sqf(n)
    } else if n % 4 == 0 {
        let m = n / 4;
        (m % 4 == 1 || m % 4 == 2) && sqf(m)
    } else {
        false
    }
}

fn small_facs(n: u64) -> Option<Vec<Value>> {
    factor_small(n).map(|f| f.into_iter().map(Pool::small_chain).collect())
}

// ---------------------------------------------------------------------------------------------
// case generation
// ---------------------------------------------------------------------------------------------

fn class_ok(n: u64, cls: &str) -> bool {
    match cls {
        "7mod8" => n % 8 == 7,
        "3mod8" => n % 8 == 3,
        "4m1" => n % 4 == 0 && (n / 4) % 4 == 1,
        "4m2" => n % 4 == 0 && (n / 4) % 4 == 2,
        _ => false,
    }
}

/// seeded |D| <= 10^7-ish of the given bit size and class: random candidates, own fundamental test
fn rand_small(rng: &mut StdRng, bits: u32, cls: &str) -> u64 {
    loop {
        let mut n = rand_bits(rng, bits).digits()[0];
        // force the residue class
        n = match cls {
            "7mod8" => (n & !7) | 7,
            "3mod8" => (n & !7) | 3,
            "4m1" => (n & !15) | 4,
            "4m2" => (n & !15) | 8,
            _ => unreachable!(),
        };
        if 64 - n.leading_zeros() != bits {
            continue;
        }
        if class_ok(n, cls) && is_fundamental_small(n) {
            return n;
        }
    }
}

/// |D| of about `bits` bits in the given class as a product of certified primes
fn rand_big(pool: &mut Pool, rng: &mut StdRng, bits: u32, cls: &str) -> (Uint, Vec<Value>) {
    loop {
        // bits available for the odd part
        let (pre, prebits): (u64, u32) = match cls {
            "7mod8" | "3mod8" => (1, 0),
            "4m1" => (4, 2),
            "4m2" => (8, 3),
            _ => unreachable!(),
        };
        let ob = bits - prebits;
        let k = if ob >= 60 { rng.gen_range(1..=3u32) } else { rng.gen_range(1..=2u32) };
        // split ob bits among k primes, each >= 8 bits
        let mut sizes = vec![];
        let mut left = ob;
        for i in 0..k {
            let remaining = k - i - 1;
            let s = if remaining == 0 { left } else { rng.gen_range(8..=(left - 8 * remaining)) };
            sizes.push(s);
            left -= s;
        }
        let mut primes: Vec<Uint> = vec![];
        let mut prod = Uint::ONE;
        let mut ok = true;
        for (i, &s) in sizes.iter().enumerate() {
            let last = i + 1 == sizes.len();
            let want: u64 = match cls {
                "7mod8" => 7,
                "3mod8" => 3,
                "4m1" => 1,
                _ => 0,
            };
            let pr = prod;
            let prs = primes.clone();
            let filt = move |p: &Uint| -> bool {
                if prs.contains(p) || p.digits()[0] & 1 == 0 {
                    return false;
                }
                if !last {
                    return true;
                }
                let m = (pr * *p).digits()[0];
                match want {
                    7 | 3 => m % 8 == want,
                    1 => m % 4 == 1,
                    _ => true,
                }
            };
            // the bit size of a product is s1+s2 or s1+s2-1: aim one bit higher for later factors
            let sb = if i == 0 { s } else { s + 1 };
            if sb < 3 {
                ok = false;
                break;
            }
            let p = pool.prime_with(sb, &filt);
            prod = prod * p;
            primes.push(p);
        }
        if !ok {
            continue;
        }
        let n = prod * Uint::from(pre);
        if n.bits() != bits {
            continue;
        }
        let mut facs: Vec<Value> = vec![];
        let mut pp = pre;
        while pp > 1 {
            facs.push(Pool::small_chain(2));
            pp /= 2;
        }
        for p in &primes {
            facs.push(pool.chain_of(p).unwrap());
        }
        return (n, facs);
    }
}

fn build_cases(shapes: &[Value], seed: u64, reps: u64, small_stride: u64) -> Vec<Case> {
    let mut cases = vec![];
    let mut rng = rng_for(seed, "c18");
    let mut pool = Pool::new(seed ^ 0xc18);
    let phase = if small_stride > 1 { seed % small_stride } else { 0 };
    let mut small_idx = 0u64;
    for sh in shapes {
        match sh["kind"].as_str().unwrap() {
            "small" => {
                let n = sh["n"].as_u64().unwrap();
                small_idx += 1;
                // quick tier: a seeded residue class of the enumeration, plus every tiny one
                if small_stride > 1 && n > 200 && small_idx % small_stride != phase {
                    continue;
                }
                cases.push(Case { name: format!("small/{}", n), n: Uint::from(n), facs: small_facs(n), shape: sh.clone() });
            }
            "rand" => {
                let bits = sh["bits"].as_u64().unwrap() as u32;
                let cls = sh["cls"].as_str().unwrap();
                let r = if bits > 24 { std::cmp::max(1, reps / 2) } else { reps };
                let own = bits <= 31; // own trial factorisation; beyond: products of certified primes
                for rep in 0..r {
                    if own {
                        let n = rand_small(&mut rng, bits, cls);
                        cases.push(Case {
                            name: format!("rand/{}/{}/{}", bits, cls, rep),
                            n: Uint::from(n),
                            facs: small_facs(n),
                            shape: sh.clone(),
                        });
                    } else {
                        let (n, facs) = rand_big(&mut pool, &mut rng, bits, cls);
                        cases.push(Case { name: format!("rand/{}/{}/{}", bits, cls, rep), n, facs: Some(facs), shape: sh.clone() });
                    }
                }
            }
            k => panic!("unknown shape kind {}", k),
        }
    }
    for (i, s) in SUITE.iter().enumerate() {
        let n = Uint::from_str(s).unwrap();
        let facs = if n.bits() < 63 { small_facs(n.digits()[0]) } else { None };
        cases.push(Case { name: format!("suite/{}", i), n, facs, shape: json!({"kind": "suite"}) });
    }
    cases
}

// ---------------------------------------------------------------------------------------------
// running the code under test
// ---------------------------------------------------------------------------------------------

struct RunOut {
    /// Ok(return value) or Err(panic description)
    g: Result<Option<ClassGroup>, Value>,
    events: Vec<String>,
}

fn run_classgroup(n: Uint, threads: usize, dbl: bool, outdir: PathBuf, deadline: f64) -> Result<RunOut, Value> {
    guard_deadline(deadline, move || {
        let d = -Int::from_bits(n);
        let mut prefs = Preferences::default();
        prefs.verbosity = Verbosity::Silent;
        prefs.outdir = Some(outdir);
        if dbl {
            prefs.use_double = Some(true);
        }
        prefs.threads = if threads > 1 { Some(threads) } else { None };
        let tpool = if threads > 1 {
            Some(rayon::ThreadPoolBuilder::new().num_threads(threads).build().expect("cannot create thread pool"))
        } else {
            None
        };
        yamaquasi::verif::start();
        let g = guard(|| classgroup::classgroup(&d, &prefs, tpool.as_ref()));
        let events = yamaquasi::verif::stop();
        RunOut { g, events }
    })
}

/// The same run through the real `ymcls` program (built from the tree under test without the verification cfg):
/// the group it prints on stdout is parsed back into a ClassGroup (h = product of the printed invariants), so that
/// the command-line layer is judged by the same trace specification; the files it writes are read as usual.
fn run_classgroup_cli(bin: &str, n: Uint, threads: usize, dbl: bool, outdir: PathBuf, deadline: f64) -> Result<RunOut, Value> {
    use std::io::Read;
    use std::process::{Command, Stdio};
    let _ = std::fs::create_dir_all(&outdir);
    let mut argv: Vec<String> = vec!["--verbose".into(), "silent".into()];
    if threads > 1 {
        argv.extend(["--threads".to_string(), threads.to_string()]);
    }
    if dbl {
        argv.extend(["--use-double".to_string(), "true".to_string()]);
    }
    argv.push(format!("-{}", n));
    argv.push(outdir.to_string_lossy().to_string());
    let mut child = Command::new(bin)
        .args(&argv)
        .env("RUST_BACKTRACE", "0")
        .stdin(Stdio::null())
        .stdout(Stdio::piped())
        .stderr(Stdio::piped())
        .spawn()
        .unwrap_or_else(|e| panic!("cannot run {}: {}", bin, e));
    let mut so = child.stdout.take().unwrap();
    let mut se = child.stderr.take().unwrap();
    let t1 = std::thread::spawn(move || {
        let mut s = Vec::new();
        let _ = so.read_to_end(&mut s);
        String::from_utf8_lossy(&s).to_string()
    });
    let t2 = std::thread::spawn(move || {
        let mut s = Vec::new();
        let _ = se.read_to_end(&mut s);
        String::from_utf8_lossy(&s).to_string()
    });
    let t0 = std::time::Instant::now();
    let status = loop {
        match child.try_wait() {
            Ok(Some(st)) => break st,
            Ok(None) => {
                if t0.elapsed().as_secs_f64() > deadline {
                    let _ = child.kill();
                    let _ = child.wait();
                    return Err(json!({"outcome": "timeout", "deadline_s": deadline}));
                }
                std::thread::sleep(std::time::Duration::from_millis(2));
            }
            Err(e) => panic!("wait: {}", e),
        }
    };
    let stdout = t1.join().unwrap();
    let stderr = t2.join().unwrap();
    if !status.success() {
        let (mut loc, mut msg) = (String::new(), String::new());
        if let Some(i) = stderr.find("panicked at ") {
            let rest = &stderr[i + 12..];
            loc = rest.lines().next().unwrap_or("").trim_end_matches(':').to_string();
            msg = rest.lines().nth(1).unwrap_or("").to_string();
        }
        return Ok(RunOut { g: Err(json!({"outcome": "panic", "msg": msg, "loc": loc, "status": status.code()})), events: vec![] });
    }
    if stdout.trim().is_empty() {
        return Ok(RunOut { g: Ok(None), events: vec![] });
    }
    // "G inv1 inv2 ..." then "p c1 c2 ..." lines; anything else makes the output unreadable: reported as a
    // group that cannot be right (h = 0)
    let mut invariants: Vec<u128> = vec![];
    let mut gens: Vec<(u32, Vec<u128>)> = vec![];
    let mut bad = false;
    for (li, line) in stdout.lines().enumerate() {
        let mut it = line.split_whitespace();
        if li == 0 {
            bad |= it.next() != Some("G");
            for t in it {
                match t.parse::<u128>() {
                    Ok(x) => invariants.push(x),
                    Err(_) => bad = true,
                }
            }
        } else {
            let p = it.next().and_then(|t| t.parse::<u32>().ok());
            let v: Option<Vec<u128>> = it.map(|t| t.parse::<u128>().ok()).collect();
            match (p, v) {
                (Some(p), Some(v)) => gens.push((p, v)),
                _ => bad = true,
            }
        }
    }
    let mut h = Uint::ONE;
    for &x in &invariants {
        h = h * Uint::from_digit(x as u64) + ((h * Uint::from_digit((x >> 64) as u64)) << 64);
    }
    if bad {
        h = Uint::ZERO;
    }
    Ok(RunOut { g: Ok(Some(ClassGroup { h, invariants, gens })), events: vec![] })
}

fn signed_digits(s: &str) -> Value {
    let (neg, mag) = match s.strip_prefix('-') {
        Some(m) => (true, m),
        None => (false, s),
    };
    let m = Uint::from_str(mag).expect("decimal");
    json!({"neg": neg && !m.is_zero(), "mag": dn(&m)})
}

/// the line `CRelationSet::emit` writes for a logged relation
fn rel_line(ev: &Value) -> String {
    let mut toks: Vec<String> = vec![];
    let mut push = |pe: &Value| {
        let p = pe[0].as_i64().unwrap();
        let e = pe[1].as_i64().unwrap();
        let (rp, re) = if e > 0 { (p, e) } else { (-p, -e) };
        for _ in 0..re {
            toks.push(rp.to_string());
        }
    };
    for pe in ev["f"].as_array().unwrap() {
        push(pe);
    }
    if !ev["l1"].is_null() {
        push(&ev["l1"]);
    }
    if !ev["l2"].is_null() {
        push(&ev["l2"]);
    }
    toks.join(" ")
}

fn parse_coord_file(path: &Path) -> BTreeMap<u64, Vec<u128>> {
    let mut m = BTreeMap::new();
    if let Ok(s) = std::fs::read_to_string(path) {
        for l in s.lines() {
            let mut it = l.split_whitespace();
            let Some(p) = it.next().and_then(|t| t.parse::<u64>().ok()) else { continue };
            let v: Option<Vec<u128>> = it.map(|t| t.parse::<u128>().ok()).collect();
            if let Some(v) = v {
                m.insert(p, v);
            }
        }
    }
    m
}

/// (G) replays the histories generated from spec/classgroup/CRelStore.tla into the real CRelationSet
fn run_store(args: &Args) -> i32 {
    use yamaquasi::relationcls::{CRelation, CRelationSet};
    let hists = read_ndjson(arg_str(args, "hists", "hists.ndjson"));
    let mut out = Out::create(arg_str(args, "out", "trace.ndjson"));
    // abstract large primes 2, 3, 4, ... of the model -> numbers in the same order
    let lp = |v: u64| -> Option<(u32, i32)> { if v == 0 { None } else { Some((100 + v as u32, 1)) } };
    for (i, h) in hists.iter().enumerate() {
        let hist: Vec<(u64, u64)> =
            h["hist"].as_array().unwrap().iter().map(|x| (x[0].as_u64().unwrap(), x[1].as_u64().unwrap())).collect();
        let hh = hist.clone();
        let r = guard(move || {
            let mut set = CRelationSet::new(Int::from(-23), 1000, 1000, None);
            for (k, &(l1, l2)) in hh.iter().enumerate() {
                set.add(CRelation { factors: vec![(3, k as i32 + 1)], large1: lp(l1), large2: lp(l2) });
            }
            let ncyc = set.len();
            let got: Vec<i32> = set.emitted.iter().map(|r| r.factors[0].1).collect();
            json!({"got": got, "ncyc": ncyc})
        });
        let base = json!({"op": "store", "case": format!("store/{}", i), "hist": h["hist"]});
        match r {
            Ok(v) => out.ev2(base, v),
            Err(e) => out.ev2(base, e),
        }
    }
    out.finish();
    0
}

pub fn run(args: &Args) -> i32 {
    if arg_str(args, "mode", "cls") == "store" {
        return run_store(args);
    }
    let seed = arg_u64(args, "seed", 1);
    let reps = arg_u64(args, "reps", 2);
    let stride = arg_u64(args, "small-stride", 1);
    let maxlines = arg_u64(args, "maxlines", 200) as usize;
    let count_bound = arg_u64(args, "count-bound", 10_000_000);
    let xcheck = arg_u64(args, "xcheck", 0);
    let npow = arg_u64(args, "npow", 2);
    let only = args.get("only").cloned();
    let ymcls = arg_str(args, "ymcls", "").to_string();
    let shapes = read_ndjson(arg_str(args, "shapes", "shapes.ndjson"));
    let scratch = PathBuf::from(arg_str(args, "scratch", "/tmp/c18-scratch"));
    let mut out = Out::create(arg_str(args, "out", "trace.ndjson"));
    let cases = build_cases(&shapes, seed, reps, stride);
    for c in &cases {
        let bits = c.n.bits();
        // thread configurations: no pool always; a pool of 4 for multi-polynomial sizes and a sample of others
        let mut tcfgs = vec![1usize];
        if bits > 32 || c.n.digits()[0] % 5 == 0 || c.shape["kind"] == "suite" {
            tcfgs.push(4);
        }
        // (threads, double large primes): the double-large-prime variation is off by default below ~250 bits, so it
        // is switched on explicitly for a share of the cases (relations with two large primes, or the square of one)
        let mut cfgs: Vec<(usize, bool)> = tcfgs.iter().map(|&t| (t, false)).collect();
        if bits >= 14 && bits <= 80 && c.n.digits()[0] % 2 == 1 {
            cfgs.push((1, true));
        }
        // (threads, double, through the command-line program)
        let mut cfgs: Vec<(usize, bool, bool)> = cfgs.iter().map(|&(t, d)| (t, d, false)).collect();
        if !ymcls.is_empty() && bits <= 64 && (c.n.digits()[0] % 4 == 3 || bits > 16 || c.shape["kind"] == "suite") {
            cfgs.push((1, false, true));
            if bits > 32 {
                cfgs.push((2, false, true));
            }
        }
        for &(threads, dbl, cli) in &cfgs {
            let case = if dbl { format!("{}/t{}d", c.name, threads) } else { format!("{}/t{}", c.name, threads) };
            let case = if cli { format!("{}/cli", case) } else { case };
            if let Some(o) = &only {
                if *o != case {
                    continue;
                }
            }
            let dd = format!("-{}", c.n);
            let mut lrng = rng_for(seed, &format!("c18-lines/{}", case)); // per case, so that --only reproduces the sample
            let outdir = scratch.join(case.replace('/', "_"));
            let _ = std::fs::remove_dir_all(&outdir);
            // one case in three writes into a directory that already holds the output of a computation for ANOTHER
            // discriminant (the same way, library or program): what is in the files afterwards must belong to this run
            if lrng.gen_range(0..3) == 0 {
                let other = if c.n == Uint::from(10148u64) { Uint::from(424708u64) } else { Uint::from(10148u64) };
                let _ = if cli {
                    run_classgroup_cli(&ymcls, other, 0, false, outdir.clone(), 300.0).map(|_| ())
                } else {
                    run_classgroup(other, 0, false, outdir.clone(), 300.0).map(|_| ())
                };
                // only the relation file is left behind (the other files are read back only where this run writes them)
                if let Ok(rd) = std::fs::read_dir(&outdir) {
                    for f in rd.flatten() {
                        if f.file_name() != "relations.sieve" {
                            let _ = std::fs::remove_file(f.path());
                        }
                    }
                }
            }
            // normal time: < 1 s up to 128 bits
            let r = if cli {
                run_classgroup_cli(&ymcls, c.n, threads, dbl, outdir.clone(), 900.0)
            } else {
                run_classgroup(c.n, threads, dbl, outdir.clone(), 900.0)
            };
            let base = json!({"case": case, "dd": dd, "d": dn(&c.n), "threads": threads, "bits": bits, "shape": c.shape, "cli": cli});
            let ro = match r {
                Err(e) => {
                    // did not come back (or the harness thread itself failed): nothing to look at
                    out.ev2(base.clone(), json!({"op": "noresult", "why": e["outcome"], "msg": e.get("msg").cloned().unwrap_or(Value::Null),
                                                 "loc": e.get("loc").cloned().unwrap_or(Value::Null)}));
                    continue;
                }
                Ok(ro) => ro,
            };
            // a run without a result (None, panic) has no class group to judge; the relation file it wrote is
            // still looked at
            let g: Option<ClassGroup> = match ro.g {
                Ok(Some(g)) => Some(g),
                Ok(None) => {
                    out.ev2(base.clone(), json!({"op": "noresult", "why": "none", "msg": Value::Null, "loc": Value::Null}));
                    None
                }
                Err(e) => {
                    out.ev2(base.clone(), json!({"op": "noresult", "why": e["outcome"], "msg": e.get("msg").cloned().unwrap_or(Value::Null),
                                                 "loc": e.get("loc").cloned().unwrap_or(Value::Null)}));
                    None
                }
            };
            // logged relations of this run: line text -> sieve values
            let mut logged: HashMap<String, Vec<(String, String, i64)>> = HashMap::new();
            let mut nlogged = 0usize;
            for s in &ro.events {
                let Ok(ev) = serde_json::from_str::<Value>(s) else { continue };
                if ev["op"] != "cls_rel" || ev["d"].as_str() != Some(&dd) {
                    continue;
                }
                nlogged += 1;
                logged.entry(rel_line(&ev)).or_default().push((
                    ev["u"].as_str().unwrap().to_string(),
                    ev["poly"].as_str().unwrap_or("").to_string(),
                    ev["x"].as_i64().unwrap_or(0),
                ));
            }
            let sieve = std::fs::read_to_string(outdir.join("relations.sieve")).unwrap_or_default();
            let mut lines: Vec<&str> = sieve.lines().collect();
            if !sieve.is_empty() && !sieve.ends_with('\n') {
                lines.pop(); // a line that was being written when the run stopped
            }
            let mut coords: BTreeMap<u64, Vec<u128>> = BTreeMap::new();
            if let Some(g) = &g {
                // coordinates: returned generators, then the file of eliminated primes
                coords = parse_coord_file(&outdir.join("group.structure.extra"));
                let nextra = coords.len();
                for (p, v) in &g.gens {
                    coords.insert(*p as u64, v.clone());
                }
                let inv: Vec<Value> = g.invariants.iter().map(|&x| du128(x)).collect();
                let hfile = std::fs::read_to_string(outdir.join("classnumber"))
                    .ok()
                    .and_then(|s| Uint::from_str(s.trim()).ok())
                    .map(|h| dn(&h));
                let mut res = json!({"op": "result", "h": dn(&g.h), "hd": g.h.to_string(), "inv": inv,
                    "invd": g.invariants.iter().map(|x| x.to_string()).collect::<Vec<_>>(),
                    "gens": g.gens.iter().map(|(p, v)| json!([p, v.iter().map(|&x| du128(x)).collect::<Vec<_>>()])).collect::<Vec<_>>(),
                    "nlines": lines.len(), "nlogged": nlogged, "nextra": nextra});
                if let Some(hf) = hfile {
                    res["hfile"] = hf;
                }
                if bits <= 30 && c.n.digits()[0] <= count_bound {
                    res["n"] = json!(c.n.digits()[0]);
                }
                if let Some(f) = &c.facs {
                    res["facs"] = Value::from(f.clone());
                }
                // a few small primes that have a prime form (own computation), for the Lagrange check f^h = 1
                let mut pw: Vec<Value> = vec![];
                let mut p = 2u64;
                let want = if bits > 64 { std::cmp::max(1, npow / 2) } else { npow };
                while (pw.len() as u64) < want && p < 2000 {
                    if is_prime_u64(p) && umod(&c.n, p) != 0 {
                        let b = b_plus(&c.n, p);
                        if b >= 0 {
                            pw.push(json!([p, b]));
                        }
                    }
                    p += 1;
                }
                if !pw.is_empty() {
                    res["pw"] = Value::from(pw);
                }
                out.ev2(base.clone(), res);
            }
            // lines of relations.sieve (all of them, or a seeded sample of maxlines)
            let mut idxs: Vec<usize> = (0..lines.len()).collect();
            if lines.len() > maxlines {
                for i in 0..maxlines {
                    let j = lrng.gen_range(i..idxs.len());
                    idxs.swap(i, j);
                }
                idxs.truncate(maxlines);
                // always include (up to 25) the lines whose sieve value is divisible by the SQUARE of a listed prime
                // above 1000 (the square of a large prime as cofactor, or a large prime met twice): chosen from the
                // logged inputs (u, D), not from what the line says about exponents
                let mut extra = 0;
                for (li, line) in lines.iter().enumerate() {
                    if extra >= 25 {
                        break;
                    }
                    let Some(us) = logged.get(*line) else { continue };
                    let Ok(u) = Uint::from_str(us[0].0.trim_start_matches('-')) else { continue };
                    let val = u * u + c.n;
                    let sq = line.split_whitespace().filter_map(|t| t.parse::<i64>().ok()).map(|v| v.unsigned_abs()).any(|p| {
                        p > 1000 && p < (1 << 31) && (val % Uint::from(p * p)).is_zero()
                    });
                    if sq && !idxs.contains(&li) {
                        idxs.push(li);
                        extra += 1;
                    }
                }
                idxs.sort();
            }
            for li in idxs {
                let line = lines[li];
                // aggregate tokens by signed value, in order of first appearance
                let mut f: Vec<(i64, i64)> = vec![];
                let mut bad = false;
                for t in line.split_whitespace() {
                    match t.parse::<i64>() {
                        Ok(v) if v != 0 && v.unsigned_abs() < (1 << 31) => {
                            if let Some(x) = f.iter_mut().find(|x| x.0 == v) {
                                x.1 += 1;
                            } else {
                                f.push((v, 1));
                            }
                        }
                        _ => bad = true,
                    }
                }
                let mut e = json!({"op": "line", "lineno": li + 1, "text": line, "bad": bad, "returned": g.is_some(),
                    "F": f.iter().map(|&(v, k)| json!([v.abs(), if v > 0 { k } else { -k }])).collect::<Vec<_>>(),
                    "bp": f.iter().map(|&(v, _)| b_plus(&c.n, v.unsigned_abs())).collect::<Vec<_>>()});
                if let Some(us) = logged.get(line) {
                    let (u, poly, x) = &us[0];
                    e["u"] = signed_digits(u);
                    e["ud"] = json!(u);
                    e["poly"] = json!(poly);
                    e["x"] = json!(x);
                }
                if xcheck > 0 && (li as u64) % xcheck == 0 && f.len() <= 8 {
                    e["xc"] = json!(true);
                }
                let co: Option<Vec<&Vec<u128>>> = f.iter().map(|&(v, _)| coords.get(&v.unsigned_abs())).collect();
                if let (Some(co), Some(g)) = (co, &g) {
                    if co.iter().all(|v| v.len() == g.invariants.len()) {
                        e["inv"] = Value::from(g.invariants.iter().map(|&x| du128(x)).collect::<Vec<_>>());
                        e["co"] = Value::from(co.iter().map(|v| v.iter().map(|&x| du128(x)).collect::<Vec<_>>()).collect::<Vec<_>>());
                    }
                }
                out.ev2(base.clone(), e);
            }
            let _ = std::fs::remove_dir_all(&outdir);
        }
    }
    out.finish();
    0
}
