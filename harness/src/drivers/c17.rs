//! C17 driver: prime enumeration (`fbase::primes`, `fbase::PrimeSieve`) and stage-1 exponent blocks
//! (`ecm::SmoothBase`, `pollard_pm1::PM1Base`, the blocks `pm1_impl` feeds to its exponentiations).
//!
//! The driver only records what the library returned.  Lists of primes are cut into runs of equal
//! `value >> 16` and logged as offsets inside that 2^16-wide segment (TLC integers are 32-bit); exponent
//! blocks are logged with the factorisation found by the driver's own trial division (a witness the
//! specification multiplies back).  Whether a list is right is decided by spec/primes/PrimesTrace.tla.

use serde_json::{json, Value};

use yamaquasi::ecm::{vhook_smooth as ecm_hook, SmoothBase};
use yamaquasi::fbase;
use yamaquasi::pollard_pm1::{self, vhook_smooth as pm1_hook, PM1Base};
use yamaquasi::{Uint, Verbosity};

use crate::gen::is_prime_u64;
use crate::trace::*;

/// own table of primes below `n` (plain sieve, independent of the library): trial divisors only
fn own_primes(n: usize) -> Vec<u64> {
    let mut s = vec![true; n.max(2)];
    s[0] = false;
    s[1] = false;
    let mut i = 2;
    while i * i < n {
        if s[i] {
            let mut k = i * i;
            while k < n {
                s[k] = false;
                k += i;
            }
        }
        i += 1;
    }
    (0..n).filter(|&i| s[i]).map(|i| i as u64).collect()
}

fn rem_small(words: &[u64], p: u64) -> u64 {
    let mut r: u128 = 0;
    for &w in words.iter().rev() {
        r = ((r << 64) | w as u128) % p as u128;
    }
    r as u64
}

/// v = rest * prod p^e over the trial primes; returns ([[p,e]..], rest)
fn factor_block(v: &Uint, trial: &[u64]) -> (Vec<Value>, Uint) {
    let mut rest = *v;
    let mut f = vec![];
    if rest.is_zero() {
        return (f, rest);
    }
    for &p in trial {
        if rest.bits() <= 1 {
            break;
        }
        if rem_small(&rest.digits()[..], p) != 0 {
            continue;
        }
        let pu = Uint::from(p);
        let mut e = 0u32;
        while (rest % pu).is_zero() {
            rest /= pu;
            e += 1;
        }
        f.push(json!([p, e]));
    }
    (f, rest)
}

fn block_value(w: u32, v: &Uint, trial: &[u64]) -> Value {
    let (f, rest) = factor_block(v, trial);
    json!({"w": w, "v": dn(v), "vd": v.to_string(), "f": f, "rest": dn(&rest)})
}

/// Logs a list of u32 that is supposed to be a run of consecutive primes: header + chunks.
/// `lo`: smallest value the list is allowed to start from (2 for primes(k)).
fn log_prime_list(out: &mut Out, case: &str, src: &str, k: i64, list: &[u32], lo: u32) {
    // runs of equal segment
    let mut chunks: Vec<(u32, usize, usize)> = vec![]; // (segment, start, end)
    let mut start = 0;
    for i in 1..=list.len() {
        if i == list.len() || (list[i] >> 16) != (list[start] >> 16) {
            chunks.push((list[start] >> 16, start, i));
            start = i;
        }
    }
    if src == "primes" {
        out.ev(json!({"op": "primes", "case": case, "src": src, "k": k, "len": list.len(),
                      "first": list.first().map(|&x| x as i64).unwrap_or(-1), "chunks": chunks.len()}));
    }
    // a list that is not increasing could produce very many runs: cap (the cap itself is then rejected
    // by the order check of the next run, nothing is hidden)
    let mut bprev: i64 = (lo >> 16) as i64 - 1;
    let nch = chunks.len();
    for (ci, (b, s, e)) in chunks.into_iter().enumerate().take(400) {
        let idx: Vec<u32> = list[s..e].iter().map(|&v| v & 0xffff).collect();
        let lo_idx = if b == (lo >> 16) { lo & 0xffff } else { 0 };
        out.ev(json!({"op": "primes_chunk", "case": case, "src": src, "k": k, "b": b, "bprev": bprev,
                      "lo": lo_idx, "idx": idx, "last": ci + 1 == nch, "pos": s}));
        bprev = b as i64;
    }
}

fn smooth_event(out: &mut Out, b1: u64, use_large: bool, trial: &[u64]) {
    let case = format!("smooth/{}/{}", b1, use_large);
    let r = guard(|| {
        let sb = SmoothBase::new(b1 as usize, use_large);
        ecm_hook::blocks(&sb)
    });
    match r {
        Ok((small, large)) => {
            let mut blocks = vec![];
            for v in &small {
                blocks.push(block_value(64, &Uint::from(*v), trial));
            }
            for v in &large {
                blocks.push(block_value(1024, v, trial));
            }
            out.ev(json!({"op": "smooth", "case": case, "b1": b1, "use_large": use_large, "cut": false,
                          "n64": small.len(), "n1024": large.len(), "blocks": blocks}));
        }
        Err(e) => out.ev2(json!({"op": "smooth", "case": case, "b1": b1, "use_large": use_large}), e),
    }
}

/// a prime P = 2Q + 1 with Q prime (so that 2 has order Q or 2Q mod P and stage 1 can neither reach 1
/// nor find a factor: every exponent block up to B1 is used)
fn safe_prime() -> u64 {
    let mut q: u64 = (1 << 61) + 1;
    loop {
        if is_prime_u64(q) && is_prime_u64(2 * q + 1) {
            return 2 * q + 1;
        }
        q += 2;
    }
}

fn pm1_event(out: &mut Out, n: u64, b1: u64, trial: &[u64]) {
    let case = format!("pm1/{}", b1);
    let nn = Uint::from(n);
    yamaquasi::verif::start();
    let r = guard_deadline(600.0, move || pollard_pm1::pm1_impl(&nn, b1, 1.0, Verbosity::Silent).is_some());
    let evs = yamaquasi::verif::stop();
    let base = json!({"op": "pm1_blocks", "case": case, "b1": b1, "n": n.to_string()});
    match r {
        Ok(found) => {
            let mut blocks = vec![];
            let mut merged = 0;
            for line in &evs {
                let v: Value = match serde_json::from_str(line) {
                    Ok(v) => v,
                    Err(_) => continue,
                };
                if v["op"] != "pm1_blk" {
                    continue;
                }
                let val: Uint = v["v"].as_str().unwrap().parse().unwrap();
                match v["kind"].as_str().unwrap() {
                    "w64" => blocks.push(block_value(64, &val, trial)),
                    "w1024" => blocks.push(block_value(1024, &val, trial)),
                    _ => merged += 1,
                }
            }
            out.ev2(base, json!({"cut": found, "merged": merged, "blocks": blocks}));
        }
        Err(e) => out.ev2(base, e),
    }
}

pub fn run(args: &Args) -> i32 {
    let tier = arg_str(args, "tier", "quick").to_string();
    let thorough = tier == "thorough";
    let _seed = arg_u64(args, "seed", 1);
    let mut out = Out::create(arg_str(args, "out", "trace.ndjson"));
    let mut rng = crate::gen::rng_for(_seed, "c17");
    use rand::Rng;

    // ---- primes(k)
    let mut ks: Vec<u32> = (0..=if thorough { 3000 } else { 512 }).collect();
    for j in 9..=if thorough { 18 } else { 14 } {
        ks.extend_from_slice(&[(1 << j) - 1, 1 << j, (1 << j) + 1]);
    }
    ks.extend_from_slice(&[6541, 6542, 6543, 35000, 50_000, 100_000]);
    if thorough {
        ks.extend_from_slice(&[200_000, 500_000, 1_000_000]);
    }
    // a few seeded values of k
    for _ in 0..(if thorough { 12 } else { 4 }) {
        ks.push(rng.gen_range(513..20_000));
    }
    ks.sort();
    ks.dedup();
    for &k in &ks {
        let case = format!("primes/{}", k);
        match guard(|| fbase::primes(k)) {
            Ok(list) => log_prime_list(&mut out, &case, "primes", k as i64, &list, 2),
            Err(e) => out.ev2(json!({"op": "primes", "case": case, "src": "primes", "k": k}), e),
        }
    }

    // ---- PrimeSieve::next, block by block (call number = block number)
    let mut want: Vec<u32> = vec![0, 1, 2, 3, 15, 16, 255, 256, 1023, 32767, 32768, 65534, 65535];
    for _ in 0..(if thorough { 200 } else { 3 }) {
        want.push(rng.gen_range(4..65534));
    }
    want.sort();
    want.dedup();
    let r = guard(|| {
        let mut evs: Vec<Value> = vec![];
        let mut s = fbase::PrimeSieve::new();
        let mut wi = 0;
        for b in 0u32..65536 {
            let blk = s.next();
            if wi < want.len() && want[wi] == b {
                wi += 1;
                let base = (b as i64) << 16;
                let idx: Vec<i64> = blk
                    .iter()
                    .map(|&v| {
                        let d = v as i64 - base;
                        d.clamp(-1, 65536) // out of the segment: rejected by the specification
                    })
                    .collect();
                evs.push(json!({"op": "sieve_block", "case": format!("sieve/{}", b), "b": b, "len": blk.len(),
                                "first": blk.first().map(|x| x.to_string()).unwrap_or_default(), "lastv": blk.last().map(|x| x.to_string()).unwrap_or_default(),
                                "idx": idx}));
            }
        }
        for b in 65536u32..65539 {
            let blk = s.next();
            evs.push(json!({"op": "sieve_end", "case": format!("sieve/{}", b), "b": b, "len": blk.len()}));
        }
        evs
    });
    match r {
        Ok(evs) => {
            for e in evs {
                out.ev(e);
            }
        }
        Err(e) => out.ev2(json!({"op": "sieve_block", "case": "sieve/run"}), e),
    }

    // ---- exponent blocks
    let mut b1s: Vec<u64> = (4..=300).collect();
    b1s.extend_from_slice(&[1000, 4095, 4096, 4097, 15000, 65535, 65536, 65537, 100_000]);
    if thorough {
        b1s.extend_from_slice(&[500_000, 1_000_000]);
        for _ in 0..20 {
            b1s.push(rng.gen_range(301..200_000));
        }
    } else {
        for _ in 0..4 {
            b1s.push(rng.gen_range(301..60_000));
        }
    }
    // B1 = q + 1 for every proper prime power q = p^k (k >= 2) up to a limit: the smallest bound that promises q, i.e. the
    // only bound at which an exponent computed one too small (rounding of a logarithm, < versus <=) shows
    {
        let lim: u64 = if thorough { 250_000 } else { 120_000 }; // an event costs ~B1^2 in the driver's own trial factorisation of the blocks
        let mut p = 2u64;
        while p * p <= lim {
            if (2..p).all(|d| p % d != 0) {
                let mut q = p * p;
                while q <= lim {
                    if q + 1 > 300 {
                        b1s.push(q + 1);
                    }
                    q *= p;
                }
            }
            p += 1;
        }
        b1s.sort();
        b1s.dedup();
    }
    let maxb1 = *b1s.iter().max().unwrap() as usize;
    let trial = own_primes(2 * maxb1 + 1000);
    for &b1 in &b1s {
        for use_large in [false, true] {
            smooth_event(&mut out, b1, use_large, &trial);
        }
    }
    let n = safe_prime();
    for &b1 in &b1s {
        pm1_event(&mut out, n, b1, &trial);
    }
    // 64-bit P-1 base: packed prime powers ("up to bound 500") and the list of large primes from there on
    match guard(|| pm1_hook::pm1base_blocks(&PM1Base::new())) {
        Ok((factors, larges)) => {
            let blocks: Vec<Value> = factors.iter().map(|&v| block_value(32, &Uint::from(v as u64), &trial)).collect();
            out.ev(json!({"op": "pm1base", "case": "pm1base/factors", "b1": 500, "cut": false, "blocks": blocks,
                          "nlarge": larges.len()}));
            log_prime_list(&mut out, "pm1base/larges", "pm1base", larges.len() as i64, &larges, 500);
        }
        Err(e) => out.ev2(json!({"op": "pm1base", "case": "pm1base/factors"}), e),
    }
    out.finish();
    0
}
