//! C15 driver (stub: not built yet).
use crate::trace::Args;

pub fn run(_args: &Args) -> i32 {
    eprintln!("driver c15 not built yet");
    2
}
