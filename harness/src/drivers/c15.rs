//! C15 driver: elliptic-curve arithmetic of ecm.rs (512-bit) and ecm128.rs (128-bit).
//!
//! Every event carries the curve (a, d, n), the input points and the output of ONE call of the real
//! code, all as plain residues (Montgomery form removed with `zn.to_int`).  Input points are
//! multiples [j]G of the generator computed by this harness with its own arithmetic (the affine
//! addition law evaluated with `gen::mulmod`), so they do not depend on the code under test; the
//! generator and the coefficient d come from the curve constructors of the library and are judged
//! by the `curve` event.  spec/edwards/EdwardsTrace.tla decides.

use rand::rngs::StdRng;
use rand::Rng;
use serde_json::{json, Value};

use yamaquasi::arith_montgomery::{MInt, ZmodN};
use yamaquasi::ecm::{self, vhook as eh, Curve, SmoothBase, Suyama11};
use yamaquasi::ecm128::vhook as h128;

use crate::gen::{mulmod, rand_bits, rng_for, Uint};
use crate::trace::*;

type P3 = (Uint, Uint, Uint);

fn u(s: &str) -> Uint {
    Uint::from_str_radix(s, 10).unwrap()
}

fn addm(a: &Uint, b: &Uint, n: &Uint) -> Uint {
    (*a + *b) % *n
}
fn subm(a: &Uint, b: &Uint, n: &Uint) -> Uint {
    (*a + *n - *b) % *n
}

/// the addition law with cleared denominators, on plain residues (harness side: only used to
/// produce input points [j]G; never to judge)
fn nat_add(a: &Uint, d: &Uint, n: &Uint, p: &P3, q: &P3) -> P3 {
    let zz = mulmod(&p.2, &q.2, n);
    let b = mulmod(&zz, &zz, n);
    let x1x2 = mulmod(&p.0, &q.0, n);
    let y1y2 = mulmod(&p.1, &q.1, n);
    let n1 = addm(&mulmod(&p.0, &q.1, n), &mulmod(&p.1, &q.0, n), n);
    let n2 = subm(&y1y2, &mulmod(a, &x1x2, n), n);
    let e = mulmod(d, &mulmod(&x1x2, &y1y2, n), n);
    let f = subm(&b, &e, n);
    let g = addm(&b, &e, n);
    (mulmod(&mulmod(&n1, &zz, n), &f, n), mulmod(&mulmod(&n2, &zz, n), &g, n), mulmod(&f, &g, n))
}

fn nat_mul(a: &Uint, d: &Uint, n: &Uint, k: u64, p: &P3) -> P3 {
    let mut r = (Uint::ZERO, Uint::ONE, Uint::ONE);
    for i in (0..64 - k.leading_zeros()).rev() {
        r = nat_add(a, d, n, &r, &r);
        if (k >> i) & 1 == 1 {
            r = nat_add(a, d, n, &r, p);
        }
    }
    r
}

fn to_m(zn: &ZmodN, p: &P3) -> eh::P3 {
    (zn.from_int(p.0), zn.from_int(p.1), zn.from_int(p.2))
}
fn from_m(zn: &ZmodN, p: &eh::P3) -> P3 {
    (zn.to_int(p.0), zn.to_int(p.1), zn.to_int(p.2))
}
fn j3(p: &P3) -> Value {
    json!([dn(&p.0), dn(&p.1), dn(&p.2)])
}
fn j3m(zn: &ZmodN, p: &eh::P3) -> Value {
    j3(&from_m(zn, p))
}
fn j4m(zn: &ZmodN, p: &eh::P4) -> Value {
    json!([dn(&zn.to_int(p.0)), dn(&zn.to_int(p.1)), dn(&zn.to_int(p.2)), dn(&zn.to_int(p.3))])
}
fn lo128(m: &MInt) -> u128 {
    m.0[0] as u128 | (m.0[1] as u128) << 64
}
fn mint128(x: u128) -> MInt {
    let mut m = MInt::default();
    m.0[0] = x as u64;
    m.0[1] = (x >> 64) as u64;
    m
}
fn to128(p: &eh::P3) -> h128::P3 {
    (lo128(&p.0), lo128(&p.1), lo128(&p.2))
}
fn to128e(p: &eh::P4) -> h128::P4 {
    (lo128(&p.0), lo128(&p.1), lo128(&p.2), lo128(&p.3))
}
fn j3r(zn: &ZmodN, p: &h128::P3) -> Value {
    j3m(zn, &(mint128(p.0), mint128(p.1), mint128(p.2)))
}
fn j4r(zn: &ZmodN, p: &h128::P4) -> Value {
    j4m(zn, &(mint128(p.0), mint128(p.1), mint128(p.2), mint128(p.3)))
}

struct Cv {
    name: String,
    zn: ZmodN,
    c: Curve,
    n: Uint,
    a: Uint,
    d: Uint,
    g: P3,
    twisted: bool,
}

impl Cv {
    fn base(&self, op: &str, case: &str) -> Value {
        json!({"op": op, "case": case, "curve": self.name, "n": dn(&self.n), "nd": self.n.to_string(),
               "a": dn(&self.a), "d": dn(&self.d), "tw": self.twisted, "words": self.zn.words()})
    }
    fn mul(&self, j: u64) -> P3 {
        nat_mul(&self.a, &self.d, &self.n, j, &self.g)
    }
}

/// fixed known primes and seeded random composites coprime to 6, of 1, 2, 4, 8 words
fn moduli(rng: &mut StdRng, thorough: bool) -> Vec<(String, Uint)> {
    let mut v = vec![
        ("p1w".to_string(), u("18446744073709551557")),                       // 2^64 - 59
        ("p2w".to_string(), (Uint::ONE << 127) - Uint::ONE),                  // 2^127 - 1
        ("p4w".to_string(), (Uint::ONE << 255) - Uint::from(19u64)),          // 2^255 - 19
        ("p8w".to_string(), u("801643889160962459503567529599420993581193510766215918385643775834136080985009029500140562854896402036056836567241446409601881132259487327233447")),
        ("p1w61".to_string(), (Uint::ONE << 61) - Uint::ONE),
        // two-word moduli with the top bit set: sums of two residues exceed 2^128
        ("p2wtop".to_string(), (Uint::ONE << 128) - Uint::from(159u64)),      // 2^128 - 159
        ("c2wtop".to_string(), u("18446744073709551557") * u("18446744073709551533")), // (2^64 - 59)(2^64 - 83)
    ];
    let sizes: &[(u32, &str)] = if thorough {
        &[(64, "c1w"), (128, "c2w"), (192, "c3w"), (256, "c4w"), (320, "c5w"), (384, "c6w"), (448, "c7w"), (500, "c8w"), (100, "c2ws")]
    } else {
        &[(64, "c1w"), (128, "c2w"), (256, "c4w"), (500, "c8w")]
    };
    for &(bits, name) in sizes {
        // product of two (probable) primes of half the size: composite without small factors, so that the
        // documented exceptional cases of the non-unified formulas inside the chain multiplications
        // (probability about 1/smallest prime factor per operation) stay out of reach
        let mut pr = |b: u32, rng: &mut StdRng| loop {
            let c = rand_bits(rng, b) | Uint::ONE;
            if c > Uint::from(3u64) && crate::gen::probably_prime(rng, &c) {
                return c;
            }
        };
        let a = pr(bits / 2, rng);
        let b = pr(bits - bits / 2, rng);
        v.push((name.to_string(), a * b));
    }
    v
}

fn build_curves(name: &str, n: &Uint, seeds: &[u32], out: &mut Out) -> Vec<Cv> {
    let mut v = vec![];
    let zn = ZmodN::new(*n);
    for &seed in seeds {
        // family 1: Edwards curve a = 1 through (3k+5, 4k+5)
        let k = seed as u64 % (1 << 24);
        let cname = format!("{}/e{}", name, seed);
        match guard(|| Curve::from_point(zn.clone(), 3 * k + 5, 4 * k + 5)) {
            Ok(Ok(c)) => v.push(mk(cname, &zn, c)),
            Ok(Err(_)) => {}
            Err(e) => out.ev2(json!({"op": "curve", "case": cname, "n": dn(n), "nd": n.to_string()}), e),
        }
        // family 2: Suyama-11 twisted curve of parameter [seed]G
        let cname = format!("{}/s{}", name, seed);
        let r = guard(|| {
            let s = Suyama11::new(&zn).ok()?;
            let g = s.element(seed).and_then(|p| s.params_point(&p)).ok()?;
            Curve::twisted_from_point(zn.clone(), g).ok()
        });
        match r {
            Ok(Some(c)) => v.push(mk(cname, &zn, c)),
            Ok(None) => {}
            Err(e) => out.ev2(json!({"op": "curve", "case": cname, "n": dn(n), "nd": n.to_string()}), e),
        }
    }
    v
}

fn mk(name: String, zn: &ZmodN, c: Curve) -> Cv {
    let n = zn.n;
    let (a, d) = c.a_d();
    let a = if a == 1 { Uint::ONE } else { n - Uint::ONE };
    let g = from_m(zn, &eh::coords(c.gen()));
    let twisted = eh::curve_twisted(&c);
    Cv { name, zn: zn.clone(), c, n, a, d, g, twisted }
}

fn merge(mut base: Value, r: Result<Value, Value>) -> Value {
    let extra = match r {
        Ok(v) => v,
        Err(v) => v,
    };
    if let (Some(b), Some(e)) = (base.as_object_mut(), extra.as_object()) {
        for (k, v) in e {
            b.insert(k.clone(), v.clone());
        }
    }
    base
}

/// one event per formula of both implementations for the pair of points ([i]G, [j]G)
fn formula_events(cv: &Cv, i: u64, j: u64, out: &mut Out) {
    let zn = &cv.zn;
    let c = &cv.c;
    let (p, q) = (cv.mul(i), cv.mul(j));
    let (pm, qm) = (to_m(zn, &p), to_m(zn, &q));
    let case = format!("{}/{}+{}", cv.name, i, j);
    let b = |op: &str| {
        let mut v = cv.base(op, &case);
        v["p"] = j3(&p);
        v["q"] = j3(&q);
        v["i"] = json!(i);
        v["j"] = json!(j);
        v
    };
    out.ev(merge(b("add"), guard(|| json!({"r": j3m(zn, &eh::add(c, &pm, &qm))}))));
    out.ev(merge(b("sub"), guard(|| json!({"r": j3m(zn, &eh::sub(c, &pm, &qm))}))));
    out.ev(merge(b("double"), guard(|| json!({"r": j3m(zn, &eh::double(c, &pm))}))));
    out.ev(merge(b("to_ext"), guard(|| json!({"r": j4m(zn, &eh::to_extended(c, &pm))}))));
    out.ev(merge(b("dblext"), guard(|| json!({"r": j4m(zn, &eh::dblext(c, &pm))}))));
    out.ev(merge(b("is_valid"), guard(|| {
        // a point and a deliberately shifted non-point
        let bad = (pm.0, zn.add(&pm.1, &zn.one()), pm.2);
        json!({"ok": eh::is_valid(c, &pm), "bad": j3m(zn, &bad), "okbad": eh::is_valid(c, &bad)})
    })));
    // extended inputs are built by the harness (Segre embedding of its own points)
    let ext = |p: &P3| -> (Uint, Uint, Uint, Uint) {
        (mulmod(&p.0, &p.2, &cv.n), mulmod(&p.1, &p.2, &cv.n), mulmod(&p.2, &p.2, &cv.n), mulmod(&p.0, &p.1, &cv.n))
    };
    let (pe, qe) = (ext(&p), ext(&q));
    let em = |e: &(Uint, Uint, Uint, Uint)| (zn.from_int(e.0), zn.from_int(e.1), zn.from_int(e.2), zn.from_int(e.3));
    let (pem, qem) = (em(&pe), em(&qe));
    if i != j {
        // the extended additions are documented as not valid for P = Q
        out.ev(merge(b("addext"), guard(|| json!({"r": j4m(zn, &eh::addext(c, &pem, &qem))}))));
        out.ev(merge(b("addextproj"), guard(|| json!({"r": j3m(zn, &eh::addextproj(c, &pem, &qem))}))));
        out.ev(merge(b("subextproj"), guard(|| json!({"r": j3m(zn, &eh::subextproj(c, &pem, &qem))}))));
    }
    if cv.twisted && cv.n.bits() <= 128 {
        let n128 = cv.n.digits()[0] as u128 | (cv.n.digits()[1] as u128) << 64;
        let r = guard(|| h128::from_point(n128, &to128(&eh::coords(c.gen()))));
        let c128 = match r {
            Ok(c) => c,
            Err(e) => {
                out.ev(merge(b("c128_new"), Err(e)));
                return;
            }
        };
        let (p8, q8) = (to128(&pm), to128(&qm));
        let (pe8, qe8) = (to128e(&pem), to128e(&qem));
        out.ev(merge(b("c128_double"), guard(|| json!({"r": j3r(zn, &h128::double(&c128, &p8))}))));
        out.ev(merge(b("c128_dblext"), guard(|| json!({"r": j4r(zn, &h128::dblext(&c128, &p8))}))));
        out.ev(merge(b("c128_ext"), guard(|| json!({"r": j4r(zn, &h128::ext(&c128, &p8))}))));
        out.ev(merge(b("c128_is_valid"), guard(|| {
            let bad = (pe8.0, lo128(&zn.add(&pem.1, &zn.one())), pe8.2, pe8.3);
            json!({"ok": h128::is_valid(&c128, &pe8), "okbad": h128::is_valid(&c128, &bad)})
        })));
        if i != j {
            out.ev(merge(b("c128_add"), guard(|| json!({"r": j4r(zn, &h128::add(&c128, &pe8, &qe8))}))));
        }
        if 2 * i != j {
            out.ev(merge(b("c128_dbladd"), guard(|| json!({"r": j3r(zn, &h128::dbladd(&c128, &p8, &qe8))}))));
        }
        let _ = q8;
    }
}

fn scalars64(rng: &mut StdRng, thorough: bool, long: &[u64]) -> Vec<(String, u64)> {
    let mut v: Vec<(String, u64)> = vec![];
    let step = if thorough { 1 } else { 5 };
    for k in (0..=300u64).step_by(step) {
        v.push(("small".into(), k));
    }
    for k in 0..16u64 {
        v.push(("small".into(), k));
    }
    for j in 0..64 {
        if thorough || [0, 1, 2, 3, 4, 7, 8, 15, 16, 31, 32, 33, 47, 48, 62, 63].contains(&j) {
            v.push(("pow2".into(), 1u64 << j));
            v.push(("pow2m1".into(), (1u64 << j).wrapping_sub(1)));
        }
    }
    v.push(("ones".into(), u64::MAX));
    for i in 1..=32u64 {
        v.push(("top".into(), u64::MAX - (i - 1)));
    }
    for &e in &[32u32, 48, 63] {
        for i in 0..(if thorough { 8u64 } else { 3 }) {
            v.push(("mid".into(), (1u64 << e) + i));
            v.push(("mid".into(), (1u64 << e) - 1 - i));
        }
    }
    // products of prime powers exactly as SmoothBase builds them
    for &b1 in &[16usize, 200, 10_000, 100_000] {
        for large in [false, true] {
            let sb = SmoothBase::new(b1, large);
            let (f, _) = ecm::vhook_smooth::blocks(&sb);
            let take = if thorough { 40 } else { 3 };
            for (i, &x) in f.iter().enumerate() {
                if i < take || i + take >= f.len() {
                    v.push((format!("smooth{}", b1), x));
                }
            }
        }
    }
    // scalars whose chains are the longest the model (AddChain.tla) finds, scaled to 64 bits: the
    // 16-bit pattern t.a.b.c becomes t.a...a.b.c (nibbles)
    for &k16 in long {
        let (t, a, b, c) = ((k16 >> 12) & 15, (k16 >> 8) & 15, (k16 >> 4) & 15, k16 & 15);
        let mut k = t;
        for _ in 0..13 {
            k = k << 4 | a;
        }
        k = (k << 4 | b) << 4 | c;
        v.push(("longchain".into(), k));
    }
    for _ in 0..(if thorough { 200 } else { 20 }) {
        let bits = rng.gen_range(2..=64);
        v.push(("random".into(), rand_bits(rng, bits).digits()[0]));
    }
    v.sort();
    v.dedup_by(|a, b| a.1 == b.1);
    v
}

fn scalars1024(rng: &mut StdRng, thorough: bool) -> Vec<(String, Uint)> {
    let mut v = vec![];
    let one = Uint::ONE;
    v.push(("ones".to_string(), Uint::MAX));
    v.push(("zero".to_string(), Uint::ZERO));  // chainmul only: the chain builder's caller handles 0 itself
    v.push(("one".to_string(), one));
    let es: &[u32] = if thorough { &[1, 63, 64, 65, 127, 128, 500, 1000, 1023] } else { &[64, 1023] };
    for &e in es {
        v.push(("pow2".to_string(), one << e));
        v.push(("pow2m1".to_string(), (one << e) - one));
        v.push(("pow2p".to_string(), (one << e) + Uint::from(0x5bu64)));
    }
    for i in 0..(if thorough { 8u64 } else { 2 }) {
        v.push(("top".to_string(), Uint::MAX - Uint::from(i * 37 + 1)));
    }
    let sp: &[u32] = if thorough { &[900, 960, 1019] } else { &[1019] };
    for &i in sp {
        v.push(("sparse".to_string(), (one << i) | (one << (i - 400))));
        v.push(("sparseneg".to_string(), (one << i) + (one << (i - 300)) - (one << (i / 2))));
    }
    // the real 1024-bit blocks of the smoothness base
    for &b1 in &[10_000usize, 100_000] {
        let sb = SmoothBase::new(b1, true);
        let (_, l) = ecm::vhook_smooth::blocks(&sb);
        let take = if thorough { 6 } else { 1 };
        for (i, x) in l.iter().enumerate() {
            if i < take || i + take >= l.len() {
                v.push((format!("smooth{}", b1), *x));
            }
        }
    }
    for _ in 0..(if thorough { 40 } else { 3 }) {
        let bits = rng.gen_range(65..=1024);
        v.push(("random".to_string(), rand_bits(rng, bits)));
    }
    // words of all-ones / alternating patterns (carry chains across the 64-bit refill boundary)
    let mut d = [0u64; 16];
    for (i, w) in d.iter_mut().enumerate() {
        *w = if i % 2 == 0 { u64::MAX } else { 0 };
    }
    v.push(("altwords".to_string(), Uint::from_digits(d)));
    for w in d.iter_mut() {
        *w = 0x7777_7777_7777_7777;
    }
    v.push(("nib7".to_string(), Uint::from_digits(d)));
    for w in d.iter_mut() {
        *w = 0xfefe_fefe_fefe_fefe;
    }
    v.push(("fe".to_string(), Uint::from_digits(d)));
    v
}

pub fn run(args: &Args) -> i32 {
    let seed = arg_u64(args, "seed", 1);
    let thorough = arg_str(args, "tier", "quick") == "thorough";
    let mut out = Out::create(arg_str(args, "out", "trace.ndjson"));
    let mut rng = rng_for(seed, "c15");
    let long: Vec<u64> = match args.get("long") {
        Some(p) => read_ndjson(p).iter().filter_map(|v| v["k"].as_u64()).collect(),
        None => vec![],
    };

    // ---- chains by themselves (pure integer events)
    let s64 = scalars64(&mut rng, thorough, &long);
    for (cls, k) in &s64 {
        let case = format!("k64/{}", k);
        let r = guard(|| json!({"chain": eh::make_addition_chain(*k).iter().map(|&x| x as i64).collect::<Vec<_>>()}));
        out.ev(merge(json!({"op": "chain64", "case": case, "cls": cls, "k": du(*k), "kd": k.to_string()}), r));
    }
    // many more random scalars for the chain builders alone (cheap for TLC: integer decoding only), so that
    // every window pattern is met at many positions
    for i in 0..(if thorough { 4000 } else { 800 }) {
        let bits = 4 + (i % 61) as u32;
        let k = rand_bits(&mut rng, bits).digits()[0] | if i % 2 == 0 { 1u64 << 63 } else { 0 };
        let case = format!("k64/{}", k);
        let r = guard(|| json!({"chain": eh::make_addition_chain(k).iter().map(|&x| x as i64).collect::<Vec<_>>()}));
        out.ev(merge(json!({"op": "chain64", "case": case, "cls": "random", "k": du(k), "kd": k.to_string()}), r));
    }
    for i in 0..(if thorough { 1500 } else { 300 }) {
        let bits = if i % 3 == 0 { 1024 } else { 65 + (i * 37 % 960) as u32 };
        let k = rand_bits(&mut rng, bits);
        let case = format!("k1024/r{}", i);
        let r = guard(|| json!({"chain": eh::make_addition_chain_long(&k).iter().map(|&x| x as i64).collect::<Vec<_>>()}));
        out.ev(merge(json!({"op": "chain1024", "case": case, "cls": "random", "k": dn(&k), "kd": k.to_string()}), r));
    }
    let s1024 = scalars1024(&mut rng, thorough);
    for (cls, k) in s1024.iter().filter(|(_, k)| !k.is_zero()) {
        let case = format!("k1024/{}", k);
        let r = guard(|| json!({"chain": eh::make_addition_chain_long(k).iter().map(|&x| x as i64).collect::<Vec<_>>()}));
        out.ev(merge(json!({"op": "chain1024", "case": case, "cls": cls, "k": dn(k), "kd": k.to_string()}), r));
    }

    // ---- curves
    let mods = moduli(&mut rng, thorough);
    let rs: u32 = rng.gen_range(2..1 << 31);
    let seeds: Vec<u32> = if thorough { vec![2, 3, 4, 7, 11, 40, 1000, 65537, 0x7fff_ffff, rs] } else { vec![2, 40, rs] };
    let mut small_curves: Vec<Cv> = vec![]; // moduli of at most 2 words: used for the scalar events
    let mut big_curves: Vec<Cv> = vec![];
    for (mi, (name, n)) in mods.iter().enumerate() {
        let words = (n.bits() + 63) / 64;
        // quick: one seed (rotating) for the expensive moduli, two for the small ones
        let sd: Vec<u32> = if thorough {
            if words > 4 { seeds[..3].to_vec() } else { seeds.clone() }
        } else if words > 2 {
            vec![seeds[mi % seeds.len()]]
        } else {
            vec![seeds[mi % seeds.len()], seeds[(mi + 1) % seeds.len()]]
        };
        for cv in build_curves(name, n, &sd, &mut out) {
            let mut e = cv.base("curve", &cv.name);
            e["g"] = j3(&cv.g);
            out.ev(e);
            if words <= 2 {
                small_curves.push(cv);
            } else {
                big_curves.push(cv);
            }
        }
    }
    // ---- formulas
    let pairs_small: &[(u64, u64)] = if thorough {
        &[(1, 1), (1, 2), (2, 1), (3, 5), (7, 20), (20, 20), (13, 1), (2, 4), (19, 17)]
    } else {
        &[(1, 1), (1, 2), (20, 7)]
    };
    let pairs_big: &[(u64, u64)] = if thorough { &[(1, 1), (1, 2), (3, 5), (20, 7)] } else { &[(1, 2), (7, 7)] };
    for cv in small_curves.iter() {
        for &(i, j) in pairs_small {
            formula_events(cv, i, j, &mut out);
        }
    }
    for cv in big_curves.iter() {
        for &(i, j) in pairs_big {
            formula_events(cv, i, j, &mut out);
        }
    }
    // ---- scalar multiplications (spec recomputes [k]P by plain double-and-add: keep moduli small)
    assert!(!small_curves.is_empty());
    let nsc = small_curves.len();
    let ncur = small_curves.len() + big_curves.len();
    for (idx, (cls, k)) in s64.iter().enumerate() {
        // big moduli only for a handful of cheap (small) scalars
        let one_w: Vec<&Cv> = small_curves.iter().filter(|c| c.n.bits() <= 64).collect();
        let two_w: Vec<&Cv> = small_curves.iter().filter(|c| c.n.bits() > 64).collect();
        let cv: &Cv = if *k < 64 && idx % 5 == 0 && !big_curves.is_empty() {
            &big_curves[idx % big_curves.len()]
        } else if idx % 4 == 3 && !two_w.is_empty() {
            two_w[(idx / 4) % two_w.len()]
        } else {
            one_w[idx % one_w.len()]
        };
        let _ = (ncur, nsc);
        let j = [1u64, 2, 3, 7, 20][idx % 5];
        let p = cv.mul(j);
        let pm = to_m(&cv.zn, &p);
        let case = format!("{}/{}*[{}]G", cv.name, k, j);
        let b = |op: &str| {
            let mut v = cv.base(op, &case);
            v["p"] = j3(&p);
            v["k"] = du(*k);
            v["kd"] = json!(k.to_string());
            v["cls"] = json!(cls);
            v["j"] = json!(j);
            v
        };
        let c = &cv.c;
        let zn = &cv.zn;
        out.ev(merge(b("chainmul64"), guard(|| json!({"r": j3m(zn, &eh::coords(&c.scalar64_chainmul(*k, &eh::point(&pm))))}))));
        if idx % 4 == 0 || cls == "longchain" {
            out.ev(merge(b("dbladd64"), guard(|| json!({"r": j3m(zn, &eh::coords(&c.scalar64_mul_dbladd(*k, &eh::point(&pm))))}))));
        }
        // the 128-bit implementation: on every twisted curve that fits, and for the edge scalars (0, 1, the
        // top of the range, the longest chains) on a twisted curve in any case
        let special = *k < 3 || cls == "top" || cls == "longchain" || cls == "ones";
        let tw_small: Vec<&Cv> = small_curves.iter().filter(|c| c.twisted).collect();
        let cv8: Option<&Cv> = if cv.twisted && cv.n.bits() <= 128 {
            Some(cv)
        } else if special && !tw_small.is_empty() {
            Some(tw_small[idx % tw_small.len()])
        } else {
            None
        };
        if let Some(cv) = cv8 {
            let p = cv.mul(j);
            let pm = to_m(&cv.zn, &p);
            let case = format!("{}/{}*[{}]G", cv.name, k, j);
            let mut v = cv.base("mul128", &case);
            v["p"] = j3(&p);
            v["k"] = du(*k);
            v["kd"] = json!(k.to_string());
            v["cls"] = json!(cls);
            v["j"] = json!(j);
            let (c, zn) = (&cv.c, &cv.zn);
            let n128 = cv.n.digits()[0] as u128 | (cv.n.digits()[1] as u128) << 64;
            let r = guard(|| {
                let c128 = h128::from_point(n128, &to128(&eh::coords(c.gen())));
                let r128 = h128::scalar64_mul(&c128, *k, &to128(&pm));
                json!({"r": j3r(zn, &r128)})
            });
            // the 512-bit result for the agreement clause is computed separately so that a panic of one
            // implementation is not blamed on the other
            let r5 = guard(|| json!({"r512": j3m(zn, &eh::coords(&c.scalar64_chainmul(*k, &eh::point(&pm))))}));
            let v = merge(v, r);
            out.ev(match r5 {
                Ok(x) => merge(v, Ok(x)),
                Err(_) => v,
            });
        }
    }
    // the public conversion 512-bit curve -> 128-bit curve (From<&ecm::Curve>): it may refuse a curve (asserted
    // precondition), but a curve it accepts must carry the same group law as the curve it was made from
    for (ci, cv) in small_curves.iter().enumerate() {
        for (ki, &k) in [2u64, 3, 7, 1000003, u64::MAX, 0x8000_0000_0000_0001].iter().enumerate() {
            let j = [1u64, 2, 3, 7, 20][(ci + ki) % 5];
            let p = cv.mul(j);
            let pm = to_m(&cv.zn, &p);
            let case = format!("{}/conv/{}*[{}]G", cv.name, k, j);
            let mut v = cv.base("conv128", &case);
            v["p"] = j3(&p);
            v["k"] = du(k);
            v["kd"] = json!(k.to_string());
            v["j"] = json!(j);
            let (c, zn) = (&cv.c, &cv.zn);
            match guard(|| yamaquasi::ecm128::Curve::from(c)) {
                Err(e) => {
                    v["accepted"] = json!(false);
                    v["refusal"] = e["msg"].clone();
                    out.ev(v);
                }
                Ok(c128) => {
                    v["accepted"] = json!(true);
                    out.ev(merge(v, guard(|| json!({"r": j3r(zn, &h128::scalar64_mul(&c128, k, &to128(&pm)))}))));
                }
            }
        }
    }
    // 1024-bit scalars on one-word moduli
    // 61-bit prime modulus: small enough for TLC, large enough that a collision [prefix]P = +-[i]P inside the
    // non-unified chain steps (probability ~ 64/ord(P) per step) is out of reach
    let mut one_word: Vec<&Cv> = small_curves.iter().filter(|c| c.n.bits() == 61).collect();
    if one_word.is_empty() {
        one_word = small_curves.iter().filter(|c| c.n.bits() <= 64).collect();
    }
    for (idx, (cls, k)) in s1024.iter().enumerate() {
        let cv = one_word[idx % one_word.len()];
        let j = [1u64, 3, 20][idx % 3];
        let p = cv.mul(j);
        let pm = to_m(&cv.zn, &p);
        let case = format!("{}/K{}*[{}]G", cv.name, idx, j);
        let mut v = cv.base("chainmul1024", &case);
        v["p"] = j3(&p);
        v["k"] = dn(k);
        v["kd"] = json!(k.to_string());
        v["cls"] = json!(cls);
        let (c, zn) = (&cv.c, &cv.zn);
        out.ev(merge(v, guard(|| json!({"r": j3m(zn, &eh::coords(&c.scalar1024_chainmul(k, &eh::point(&pm))))}))));
    }
    let n = out.finish();
    println!("{}", json!({"events": n}));
    0
}
