//! C14 driver: kernel_gauss / kernel_lanczos of yamaquasi::matrix::gf2 on
//!  * explicit small matrices printed by spec/gf2/Gf2Gen.tla (`--mats`),
//!  * every matrix of a few tiny dimensions together with the result of the model
//!    spec/gf2/Gf2Kernel.tla on it (`--model`), and
//!  * matrices built here, with seeded randomness, from the abstract shapes enumerated by
//!    spec/gf2/Gf2Shapes.tla (`--shapes`): rows, columns, planted corank, density profile,
//!    zero / duplicate columns.
//!
//! One event per call: the matrix (columns as lists of row indices), the returned vectors (lists
//! of column indices), and certificates that let the trace specification (spec/gf2/Gf2Trace.tla)
//! decide independence and the size of the family without searching.  Nothing is judged here: the
//! eliminations below only *produce witnesses* that TLC verifies.

use rand::rngs::StdRng;
use rand::seq::SliceRandom;
use rand::Rng;
use serde_json::{json, Value};

use yamaquasi::matrix::gf2::{kernel_gauss, kernel_lanczos, SparseMat};
use yamaquasi::Verbosity;

use crate::gen::rng_for;
use crate::trace::*;

// ---------------------------------------------------------------------------------------------
// bit vectors of the harness (independent of the library's BitVec)

type Bits = Vec<u64>;

fn words(n: usize) -> usize {
    (n + 63) / 64
}
fn bget(v: &Bits, i: usize) -> bool {
    (v[i / 64] >> (i % 64)) & 1 == 1
}
fn bflip(v: &mut Bits, i: usize) {
    v[i / 64] ^= 1u64 << (i % 64);
}
fn bxor(a: &mut Bits, b: &Bits) {
    for (x, y) in a.iter_mut().zip(b.iter()) {
        *x ^= *y;
    }
}
fn bzero(v: &Bits) -> bool {
    v.iter().all(|&w| w == 0)
}
fn blowest(v: &Bits) -> Option<usize> {
    for (i, &w) in v.iter().enumerate() {
        if w != 0 {
            return Some(64 * i + w.trailing_zeros() as usize);
        }
    }
    None
}
fn bindices(v: &Bits) -> Vec<usize> {
    let mut r = vec![];
    for (i, &w) in v.iter().enumerate() {
        let mut w = w;
        while w != 0 {
            r.push(64 * i + w.trailing_zeros() as usize);
            w &= w - 1;
        }
    }
    r
}
fn from_indices(idx: &[usize], n: usize) -> Bits {
    let mut v = vec![0u64; words(n)];
    for &i in idx {
        bflip(&mut v, i);
    }
    v
}

/// Sequential elimination with combination tracking (witness producer).
/// For every input vector, in order: it is reduced by the previously kept ones; if something is
/// left it is kept with a pivot coordinate that no later reduced vector contains.
struct Elim {
    /// per input vector: Some(pivot) if it was independent of the previous ones
    piv: Vec<Option<usize>>,
    /// per input vector: the set of input indices whose sum is the reduced vector (zero for dependent ones)
    combo: Vec<Bits>,
}

fn eliminate(vecs: &[Bits], nvec_words: usize) -> Elim {
    let mut kept: Vec<(usize, Bits, Bits)> = vec![]; // (pivot, reduced vector, combination)
    let mut piv = vec![];
    let mut combo = vec![];
    for (i, v) in vecs.iter().enumerate() {
        let mut x = v.clone();
        let mut c = vec![0u64; nvec_words];
        bflip(&mut c, i);
        for (p, y, cy) in kept.iter() {
            if bget(&x, *p) {
                bxor(&mut x, y);
                bxor(&mut c, cy);
            }
        }
        match blowest(&x) {
            Some(p) => {
                kept.push((p, x, c.clone()));
                piv.push(Some(p));
            }
            None => piv.push(None),
        }
        combo.push(c);
    }
    Elim { piv, combo }
}

// ---------------------------------------------------------------------------------------------
// matrices

struct Mat {
    nrows: usize,
    /// sorted, duplicate-free row indices of every column
    cols: Vec<Vec<usize>>,
}

fn column(rng: &mut StdRng, nrows: usize, profile: &str) -> Bits {
    let mut v = vec![0u64; words(nrows)];
    match profile {
        // heavy low rows, sparse tail: row i is present with probability min(1/2, 6/(i+1))
        "sieve" => {
            for i in 0..nrows {
                let p = (6.0 / (i as f64 + 1.0)).min(0.5);
                if rng.gen_bool(p) {
                    bflip(&mut v, i);
                }
            }
        }
        // every row equally likely, a few entries per column
        "uniform" => {
            let w = rng.gen_range(1..=24usize).min(nrows);
            let mut left = w;
            while left > 0 {
                let i = rng.gen_range(0..nrows);
                if !bget(&v, i) {
                    bflip(&mut v, i);
                    left -= 1;
                }
            }
        }
        // every entry with probability 1/2
        "dense" => {
            for i in 0..nrows {
                if rng.gen_bool(0.5) {
                    bflip(&mut v, i);
                }
            }
        }
        _ => panic!("unknown profile {}", profile),
    }
    v
}

/// Matrix for an abstract shape: `ncols - corank - nzero - ndup` random columns with the profile,
/// `corank` columns that are sums of random subsets of them, zero columns, copies of earlier
/// columns; shuffled.  (The true rank is whatever it is: nobody relies on the construction.)
fn build(rng: &mut StdRng, sh: &Value) -> Mat {
    let g = |k: &str| sh[k].as_u64().unwrap_or(0) as usize;
    let (nrows, ncols) = (g("nrows"), g("ncols"));
    let profile = sh["profile"].as_str().unwrap();
    let nzero = g("nzero").min(ncols);
    let ndup = g("ndup").min(ncols - nzero);
    let ndep = g("corank").min(ncols - nzero - ndup);
    let nfree = ncols - nzero - ndup - ndep;
    let mut cols: Vec<Bits> = vec![];
    for _ in 0..nfree {
        cols.push(column(rng, nrows, profile));
    }
    for t in 0..ndep {
        let mut v = vec![0u64; words(nrows)];
        if nfree > 0 {
            // mostly short combinations (keeps the profile), every fourth one a long one
            let long = t % 4 == 3;
            if long {
                for j in 0..nfree {
                    if rng.gen_bool(0.5) {
                        let c = cols[j].clone();
                        bxor(&mut v, &c);
                    }
                }
            } else {
                let s = rng.gen_range(1..=8usize).min(nfree);
                for _ in 0..s {
                    let j = rng.gen_range(0..nfree);
                    let c = cols[j].clone();
                    bxor(&mut v, &c);
                }
            }
        }
        cols.push(v);
    }
    for _ in 0..nzero {
        cols.push(vec![0u64; words(nrows)]);
    }
    for _ in 0..ndup {
        if cols.is_empty() {
            cols.push(column(rng, nrows, profile));
        } else {
            let j = rng.gen_range(0..cols.len());
            let c = cols[j].clone();
            cols.push(c);
        }
    }
    cols.shuffle(rng);
    Mat { nrows, cols: cols.iter().map(bindices).collect() }
}

fn explicit(m: &Value) -> Mat {
    let nrows = m["nrows"].as_u64().unwrap() as usize;
    let cols: Vec<Vec<usize>> = m["cols"]
        .as_array()
        .unwrap()
        .iter()
        .map(|c| {
            let mut v: Vec<usize> = c.as_array().unwrap().iter().map(|x| x.as_u64().unwrap() as usize).collect();
            v.sort_unstable();
            v.dedup();
            v
        })
        .collect();
    Mat { nrows, cols }
}

// ---------------------------------------------------------------------------------------------
// calls into the library

/// kernel_gauss takes and returns the library's bit-vector type; it is reached here through the
/// conversions that type offers (from an iterator of booleans, into the list of set positions),
/// so that the harness needs no dependency of its own on the bit-vector crate.
fn call_gauss<T>(f: fn(Vec<T>) -> Vec<T>, nrows: usize, cols: &[Vec<usize>]) -> Vec<Vec<usize>>
where
    T: From<std::vec::IntoIter<bool>> + Into<Vec<usize>>,
{
    let input: Vec<T> = cols
        .iter()
        .map(|c| {
            let mut b = vec![false; nrows];
            for &i in c {
                b[i] = true;
            }
            T::from(b.into_iter())
        })
        .collect();
    f(input).into_iter().map(|v| v.into()).collect()
}

fn merge(mut base: Value, extra: Value) -> Value {
    if let (Some(b), Some(e)) = (base.as_object_mut(), extra.as_object()) {
        for (k, v) in e {
            b.insert(k.clone(), v.clone());
        }
    }
    base
}

/// Certificates for a family K of vectors over `n` coordinates:
///  "priv": for each vector a coordinate that it has and no other vector of K has, or
///  "dep":  a non-empty set of members of K whose sum is zero, or
///  "tri":  reduced vectors (as combinations of members of K) in triangular position.
fn independence_certificate(k: &[Vec<usize>], n: usize) -> Value {
    let mut cnt = vec![0u32; n];
    for v in k {
        for &i in v {
            if i < n {
                cnt[i] += 1;
            }
        }
    }
    let privs: Vec<Option<usize>> = k.iter().map(|v| v.iter().copied().find(|&i| i < n && cnt[i] == 1)).collect();
    if privs.iter().all(|p| p.is_some()) {
        return json!({"priv": privs.iter().map(|p| p.unwrap()).collect::<Vec<_>>()});
    }
    if k.iter().any(|v| v.iter().any(|&i| i >= n)) {
        return json!({}); // out of range indices: the membership clause speaks about it
    }
    let vecs: Vec<Bits> = k.iter().map(|v| from_indices(v, n)).collect();
    let el = eliminate(&vecs, words(k.len()));
    if let Some(i) = el.piv.iter().position(|p| p.is_none()) {
        return json!({"dep": bindices(&el.combo[i])});
    }
    let tri: Vec<Value> = (0..k.len()).map(|i| json!({"combo": bindices(&el.combo[i]), "piv": el.piv[i].unwrap()})).collect();
    json!({"tri": tri})
}

fn gauss_event(out: &mut Out, case: &str, sh: &Value, mat: &Mat, deadline: f64) {
    let (nrows, cols) = (mat.nrows, mat.cols.clone());
    let r = guard_deadline(deadline, move || call_gauss(kernel_gauss, nrows, &cols));
    gauss_emit(out, case, sh, mat, None, r)
}

/// Many tiny matrices: one guarded thread per chunk instead of one per call (each call still has its
/// own panic guard); if a chunk does not come back, its matrices are redone one by one.
fn gauss_batch(out: &mut Out, items: &[(String, Value, Mat, Option<Value>)], deadline: f64) {
    for chunk in items.chunks(256) {
        let inputs: Vec<(usize, Vec<Vec<usize>>)> = chunk.iter().map(|it| (it.2.nrows, it.2.cols.clone())).collect();
        let res = guard_deadline(deadline, move || {
            inputs.iter().map(|(nrows, cols)| guard(|| call_gauss(kernel_gauss, *nrows, cols))).collect::<Vec<_>>()
        });
        match res {
            Ok(rs) => {
                for (it, r) in chunk.iter().zip(rs.into_iter()) {
                    gauss_emit(out, &it.0, &it.1, &it.2, it.3.as_ref(), r);
                }
            }
            Err(_) => {
                for it in chunk {
                    let (nrows, cols) = (it.2.nrows, it.2.cols.clone());
                    let r = guard_deadline(deadline, move || call_gauss(kernel_gauss, nrows, &cols));
                    gauss_emit(out, &it.0, &it.1, &it.2, it.3.as_ref(), r);
                }
            }
        }
    }
}

fn gauss_emit(out: &mut Out, case: &str, sh: &Value, mat: &Mat, expect: Option<&Value>, r: Result<Vec<Vec<usize>>, Value>) {
    let (nrows, ncols) = (mat.nrows, mat.cols.len());
    let mut base = json!({"op": "kernel_gauss", "case": case, "shape": sh, "nrows": nrows, "ncols": ncols, "m": mat.cols});
    if let Some(x) = expect {
        base = merge(base, json!({"expect": x}));
    }
    let k = match r {
        Ok(k) => k,
        Err(o) => {
            out.ev(merge(base, o));
            return;
        }
    };
    let mut ev = merge(base, json!({"k": k}));
    ev = merge(ev, independence_certificate(&k, ncols));
    // the harness's own elimination: informational rank, and a counter-witness (a larger
    // independent family inside the kernel) if the library returned fewer vectors than that
    let vecs: Vec<Bits> = mat.cols.iter().map(|c| from_indices(c, nrows)).collect();
    let el = eliminate(&vecs, words(ncols));
    let hrank = el.piv.iter().filter(|p| p.is_some()).count();
    ev = merge(ev, json!({"hrank": hrank}));
    if ncols - hrank > k.len() {
        let mut wit = vec![];
        let mut wpriv = vec![];
        for j in 0..ncols {
            if el.piv[j].is_none() {
                wit.push(bindices(&el.combo[j]));
                wpriv.push(j);
            }
        }
        ev = merge(ev, json!({"wit": wit, "wpriv": wpriv}));
    }
    out.ev(ev);
}

fn lanczos_event(out: &mut Out, case: &str, sh: &Value, mat: &Mat, rep: u64, deadline: f64) -> bool {
    let (nrows, ncols) = (mat.nrows, mat.cols.len());
    let base = json!({"op": "kernel_lanczos", "case": case, "rep": rep, "shape": sh, "nrows": nrows, "ncols": ncols, "m": mat.cols});
    let sm = SparseMat { k: nrows, cols: mat.cols.clone() };
    let r = guard_deadline(deadline, move || {
        kernel_lanczos(&sm, Verbosity::Silent).into_iter().map(|v| v.into_usizes()).collect::<Vec<Vec<usize>>>()
    });
    match r {
        Ok(k) => {
            out.ev(merge(base, json!({"k": k})));
            false
        }
        Err(o) => {
            let hung = o["outcome"] == "timeout";
            out.ev(merge(base, o));
            hung
        }
    }
}

pub fn run(args: &Args) -> i32 {
    if args.get("lsteps").is_some() {
        return lanczos_steps(args);
    }
    let seed = arg_u64(args, "seed", 1);
    let reps = arg_u64(args, "reps", 3);
    // deadline of one call, seconds (normal times: < 5 s for the largest matrices)
    let deadline = arg_u64(args, "deadline", 300) as f64;
    // a call that does not come back is abandoned (its thread keeps spinning): after two of them no further
    // Lanczos call is made - the events recorded so far decide
    let mut hung_calls = 0;
    let mut out = Out::create(arg_str(args, "out", "trace.ndjson"));
    let mut rng = rng_for(seed, "c14");
    let mut skipped = 0;
    // explicit small matrices from the TLA+ generator
    if let Some(p) = args.get("mats") {
        let items: Vec<(String, Value, Mat, Option<Value>)> = read_ndjson(p)
            .iter()
            .enumerate()
            .map(|(i, m)| {
                (format!("gen/{}/{}", i, m["name"].as_str().unwrap_or("?")), json!({"gen": m["name"], "corank": m["corank"]}), explicit(m), None)
            })
            .collect();
        gauss_batch(&mut out, &items, deadline);
    }
    // terminal behaviours of the model Gf2Kernel (matrix + the family the model returns)
    if let Some(p) = args.get("model") {
        let items: Vec<(String, Value, Mat, Option<Value>)> = read_ndjson(p)
            .iter()
            .enumerate()
            .map(|(i, m)| {
                let mat = explicit(m);
                (format!("model/{}x{}/{}", mat.nrows, mat.cols.len(), i), json!({"gen": "model"}), mat, Some(m["expect"].clone()))
            })
            .collect();
        gauss_batch(&mut out, &items, deadline);
    }
    // abstract shapes concretised here
    if let Some(p) = args.get("shapes") {
        for (i, sh) in read_ndjson(p).iter().enumerate() {
            let mat = build(&mut rng, sh);
            match sh["alg"].as_str().unwrap() {
                "gauss" => gauss_event(&mut out, &format!("gauss/{}", i), sh, &mat, deadline),
                "lanczos" => {
                    // Documented domain of block Lanczos: its first step draws random blocks until a
                    // 64 x 64 Gram matrix built from the input is invertible, which never happens
                    // unless the rank is well above 64 (and it slices 64 rows).  The harness only
                    // *schedules* here: matrices outside the domain are not submitted at all.
                    let vecs: Vec<Bits> = mat.cols.iter().map(|c| from_indices(c, mat.nrows)).collect();
                    let hrank = eliminate(&vecs, words(mat.cols.len())).piv.iter().filter(|p| p.is_some()).count();
                    if mat.nrows < 128 || hrank < 100 {
                        skipped += 1;
                        continue;
                    }
                    // variant: the LAST column supported on the dense block only (rows 0..63) - with an odd number of
                    // columns it sits alone in the last lane of the last word pair of the block products
                    if mat.cols.len() % 2 == 1 && hung_calls < 2 {
                        let mut m2 = Mat { nrows: mat.nrows, cols: mat.cols.clone() };
                        let last = m2.cols.len() - 1;
                        let mut c: Vec<usize> = (0..64).filter(|_| rng.gen_bool(0.3)).collect();
                        if c.is_empty() {
                            c.push(rng.gen_range(0..64));
                        }
                        m2.cols[last] = c;
                        if lanczos_event(&mut out, &format!("lanczos/{}/lastlow", i), sh, &m2, 0, deadline) {
                            hung_calls += 1;
                        }
                    }
                    // variant: the last two rows made equal (two large primes that always occur together) and present in
                    // a few columns, on row counts that are not a multiple of the block size: B*Y then has a component
                    // that lives only in the rows of the last, partial block of 64
                    if mat.nrows % 64 >= 2 && hung_calls < 2 {
                        let mut m2 = Mat { nrows: mat.nrows, cols: mat.cols.clone() };
                        let (r1, r2) = (mat.nrows - 2, mat.nrows - 1);
                        let nc = m2.cols.len();
                        let picks: Vec<usize> = (0..5).map(|_| rng.gen_range(0..nc)).collect();
                        for (j, c) in m2.cols.iter_mut().enumerate() {
                            let has = c.contains(&r2) ^ picks.contains(&j);
                            c.retain(|&x| x != r1 && x != r2);
                            if has {
                                c.push(r1);
                                c.push(r2);
                            }
                        }
                        if lanczos_event(&mut out, &format!("lanczos/{}/tailpair", i), sh, &m2, 0, deadline) {
                            hung_calls += 1;
                        }
                    }
                    for rep in 0..reps {
                        if hung_calls >= 2 {
                            skipped += 1;
                            continue;
                        }
                        if lanczos_event(&mut out, &format!("lanczos/{}", i), sh, &mat, rep, deadline) {
                            hung_calls += 1;
                        }
                    }
                }
                a => panic!("unknown alg {}", a),
            }
        }
    }
    let n = out.finish();
    println!("{}", json!({"events": n, "lanczos_skipped_outside_domain": skipped}));
    0
}

// ---------------------------------------------------------------------------------------------
// Lanczos step traces (`--lsteps <file>`): kernel_lanczos run with the hooks of src/matrix/gf2.rs
// recording one event per block; the events go to <file> for spec/gf2/LanczosTrace.tla, the
// returned vectors go to `--out` as ordinary kernel_lanczos events for spec/gf2/Gf2Trace.tla.

fn hex_bits(v: &Value) -> Value {
    let w = u64::from_str_radix(v.as_str().unwrap_or("0"), 16).unwrap_or(0);
    json!((0..64).filter(|i| (w >> i) & 1 == 1).collect::<Vec<u32>>())
}
fn hex_rows(v: &Value) -> Value {
    json!(v.as_array().map(|a| a.iter().map(hex_bits).collect::<Vec<Value>>()).unwrap_or_default())
}

/// One hooked run.  Returns true if the call did not come back.
fn lanczos_steps_run(out: &mut Out, steps: &mut Out, rng: &mut StdRng, case: &str, sh: &Value, mat: &Mat, full: bool, deadline: f64) -> bool {
    let (nrows, ncols) = (mat.nrows, mat.cols.len());
    let base = json!({"op": "kernel_lanczos", "case": case, "rep": 0, "shape": sh, "nrows": nrows, "ncols": ncols, "m": mat.cols});
    let sm = SparseMat { k: nrows, cols: mat.cols.clone() };
    yamaquasi::verif::start();
    let r = guard_deadline(deadline, move || {
        kernel_lanczos(&sm, Verbosity::Silent).into_iter().map(|v| v.into_usizes()).collect::<Vec<Vec<usize>>>()
    });
    let raw: Vec<Value> = yamaquasi::verif::stop().iter().filter_map(|l| serde_json::from_str::<Value>(l).ok()).collect();
    // the events of THIS call: the thread of the last lz_init (an abandoned earlier call may still be talking)
    let tid = raw.iter().rev().find(|e| e["op"] == "lz_init").map(|e| e["tid"].clone());
    let evs: Vec<&Value> = raw.iter().filter(|e| Some(&e["tid"]) == tid.as_ref() && e["op"].as_str().map_or(false, |o| o.starts_with("lz_"))).collect();
    let niter = evs.iter().filter(|e| e["op"] == "lz_iter").count();
    // which iterations carry the 64 x 64 matrices for the expensive checks: all (full), or the first 3,
    // the last 3 and 5 random ones
    let mut heavy = vec![full; niter];
    if !full {
        for k in 0..niter.min(3) {
            heavy[k] = true;
            heavy[niter - 1 - k] = true;
        }
        for _ in 0..5 {
            if niter > 0 {
                heavy[rng.gen_range(0..niter)] = true;
            }
        }
    }
    let returned = match &r {
        Ok(k) => json!(k.len()),
        Err(_) => json!(-1),
    };
    let mut it = 0;
    let mut seen_init = false;
    for e in evs {
        let op = e["op"].as_str().unwrap();
        match op {
            "lz_init" => {
                seen_init = true;
                steps.ev(json!({"op": "lz_init", "case": case, "shape": sh, "nrows": nrows, "ncols": ncols, "nx": e["nx"], "ny": e["ny"],
                    "lsize": e["lsize"], "gram": hex_rows(&e["gram"]), "gginv": hex_rows(&e["gginv"]), "nz": hex_bits(&e["nz"])}));
            }
            "lz_iter" => {
                let h = heavy[it];
                it += 1;
                let term = e["term"].as_bool().unwrap_or(false);
                let mut v = json!({"op": "lz_iter", "case": case, "idx": e["idx"], "rev": e["rev"], "rk": e["rk"], "mask": hex_bits(&e["mask"]),
                    "term": term, "nz": hex_bits(&e["nz"]), "proj": e["proj"], "freed": e["freed"], "heavy": h,
                    "yorth": if term { json!(true) } else { e["yorth"].clone() }});
                if h {
                    v = merge(v, json!({"gram": hex_rows(&e["gram"]), "ginvg": if term { json!([]) } else { hex_rows(&e["ginvg"]) }}));
                }
                steps.ev(v);
            }
            "lz_exit" => {
                steps.ev(json!({"op": "lz_exit", "case": case, "blocks": e["blocks"], "dimker": e["dimker"], "kept": e["kept"],
                    "bynz": hex_bits(&e["bynz"]), "returned": returned}));
            }
            _ => {}
        }
    }
    match r {
        Ok(k) => {
            out.ev(merge(base, json!({"k": k})));
            false
        }
        Err(o) => {
            // a panic / timeout of the call: closes the run in the step trace too
            if seen_init {
                steps.ev(merge(json!({"op": "lz_abort", "case": case}), o.clone()));
            }
            let hung = o["outcome"] == "timeout";
            out.ev(merge(base, o));
            hung
        }
    }
}

/// rank of Q^3, Q = M^T M (n x n over GF(2), n = number of columns; only used for tiny n)
fn rank_q3(mat: &Mat) -> usize {
    let n = mat.cols.len();
    let cols: Vec<Bits> = mat.cols.iter().map(|c| from_indices(c, mat.nrows)).collect();
    let mut q: Vec<Bits> = vec![vec![0u64; words(n)]; n];
    for i in 0..n {
        for j in 0..n {
            let dot: u32 = cols[i].iter().zip(cols[j].iter()).map(|(a, b)| (a & b).count_ones()).sum();
            if dot % 2 == 1 {
                bflip(&mut q[i], j);
            }
        }
    }
    let mul = |a: &Vec<Bits>, b: &Vec<Bits>| -> Vec<Bits> {
        (0..n)
            .map(|i| {
                let mut r = vec![0u64; words(n)];
                for k in 0..n {
                    if bget(&a[i], k) {
                        bxor(&mut r, &b[k]);
                    }
                }
                r
            })
            .collect()
    };
    let q3 = mul(&mul(&q, &q), &q);
    eliminate(&q3, words(n)).piv.iter().filter(|p| p.is_some()).count()
}

fn lanczos_steps(args: &Args) -> i32 {
    let seed = arg_u64(args, "seed", 1);
    let thorough = arg_str(args, "tier", "quick") == "thorough";
    let deadline = arg_u64(args, "deadline", 300) as f64;
    let maxcols = arg_u64(args, "maxcols", if thorough { 6100 } else { 3100 }) as usize;
    let nshapes = arg_u64(args, "nshapes", if thorough { 24 } else { 9 }) as usize;
    let mut out = Out::create(arg_str(args, "out", "trace.ndjson"));
    let mut steps = Out::create(arg_str(args, "lsteps", "lsteps.ndjson"));
    let mut rng = rng_for(seed, "c14-lsteps");
    let mut hung_calls = 0;
    let mut runs = 0;
    let mut skipped = 0;
    // small fixed shapes at the lower end of the domain (65 columns: one more than the block width) ...
    let mut shapes: Vec<Value> = vec![
        json!({"alg": "lanczos", "nrows": 130, "ncols": 65, "corank": 0, "profile": "dense", "nzero": 0, "ndup": 0, "lowend": true}),
        json!({"alg": "lanczos", "nrows": 129, "ncols": 70, "corank": 3, "profile": "dense", "nzero": 0, "ndup": 0, "lowend": true}),
        json!({"alg": "lanczos", "nrows": 131, "ncols": 129, "corank": 3, "profile": "uniform", "nzero": 1, "ndup": 1}),
        json!({"alg": "lanczos", "nrows": 150, "ncols": 190, "corank": 5, "profile": "sieve", "nzero": 2, "ndup": 2}),
    ];
    // ... and a seeded selection of the Lanczos shapes enumerated by Gf2Shapes.tla, smallest sizes first
    if let Some(p) = args.get("shapes") {
        let mut ls: Vec<Value> = read_ndjson(p).into_iter().filter(|s| s["alg"] == "lanczos" && (s["ncols"].as_u64().unwrap_or(0) as usize) <= maxcols).collect();
        ls.shuffle(&mut rng);
        ls.truncate(nshapes);
        ls.sort_by_key(|s| s["ncols"].as_u64().unwrap_or(0));
        shapes.extend(ls);
    }
    for (i, sh) in shapes.iter().enumerate() {
        let mat = build(&mut rng, sh);
        let hrank = {
            let vecs: Vec<Bits> = mat.cols.iter().map(|c| from_indices(c, mat.nrows)).collect();
            eliminate(&vecs, words(mat.cols.len())).piv.iter().filter(|p| p.is_some()).count()
        };
        let lowend = sh["lowend"].as_bool().unwrap_or(false);
        // same scheduling rule as the main driver (documented domain: rank >= 100).  The low-end shapes
        // (65 / 70 columns) are outside it; what the first step of the code needs there is that the cube of
        // Q = M^T M has rank > 64 (else it draws random blocks for ever): rebuilt until that holds.
        let mut mat = mat;
        let mut hrank = hrank;
        if lowend {
            let mut tries = 0;
            while rank_q3(&mat) < 65 && tries < 40 {
                mat = build(&mut rng, sh);
                tries += 1;
            }
            if rank_q3(&mat) < 65 {
                skipped += 1;
                continue;
            }
            hrank = 100;
        }
        if mat.nrows < 128 || hrank < 100 {
            skipped += 1;
            continue;
        }
        // which blocks carry their 64 x 64 matrices: all of them unless --sample is given
        let full = args.get("sample").is_none();
        let mut variants: Vec<(String, Mat)> = vec![(format!("lsteps/{}", i), Mat { nrows: mat.nrows, cols: mat.cols.clone() })];
        // equal last rows on a partial block of 64 rows
        if mat.nrows % 64 >= 2 && i % 2 == 0 && !lowend {
            let mut m2 = Mat { nrows: mat.nrows, cols: mat.cols.clone() };
            let (r1, r2) = (mat.nrows - 2, mat.nrows - 1);
            let nc = m2.cols.len();
            let picks: Vec<usize> = (0..5).map(|_| rng.gen_range(0..nc)).collect();
            for (j, c) in m2.cols.iter_mut().enumerate() {
                let has = c.contains(&r2) ^ picks.contains(&j);
                c.retain(|&x| x != r1 && x != r2);
                if has {
                    c.push(r1);
                    c.push(r2);
                }
            }
            variants.push((format!("lsteps/{}/tailpair", i), m2));
        }
        for (case, m) in variants.iter() {
            if hung_calls >= 2 {
                skipped += 1;
                continue;
            }
            // the low-end shape is outside the documented domain (rank >= 100): short deadline
            let dl = if lowend { deadline.min(60.0) } else { deadline };
            if lanczos_steps_run(&mut out, &mut steps, &mut rng, case, sh, m, full, dl) {
                hung_calls += 1;
            }
            runs += 1;
        }
    }
    let n = out.finish();
    let ns = steps.finish();
    println!("{}", json!({"events": n, "step_events": ns, "runs": runs, "lanczos_skipped_outside_domain": skipped}));
    0
}
