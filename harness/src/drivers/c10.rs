//! C10 driver: polynomial arithmetic over Z/nZ (arith_poly, arith_fft) on the shapes enumerated by
//! spec/poly/PolyShapes.tla.  Every event carries operands and results as plain residues
//! (`zn.to_int` of every coefficient); spec/poly/PolyTrace.tla recomputes the schoolbook definition.

use rand::rngs::StdRng;
use rand::Rng;
use serde_json::{json, Value};

use yamaquasi::arith_fft::{self, convolve_modn_ntt, MultiZmodP};
use yamaquasi::arith_montgomery::{MInt, ZmodN};
use yamaquasi::arith_poly::{self, Poly, PolyRing};

use crate::gen::{gcd, rand_below, rand_bits, rng_for, Uint};
use crate::trace::*;

fn merge(mut base: Value, extra: Value) -> Value {
    if let (Some(b), Some(e)) = (base.as_object_mut(), extra.as_object()) {
        for (k, v) in e {
            b.insert(k.clone(), v.clone());
        }
    }
    base
}

/// odd modulus with exactly `bits` bits (2..500)
fn modulus(rng: &mut StdRng, bits: u32) -> Uint {
    assert!((2..=500).contains(&bits));
    if bits == 2 {
        return Uint::from(3u64);
    }
    let n = match rng.gen_range(0..6) {
        0 => (Uint::ONE << bits) - Uint::ONE,        // all ones
        1 => (Uint::ONE << (bits - 1)) + Uint::ONE,  // smallest
        _ => rand_bits(rng, bits),
    };
    n | Uint::ONE
}

fn coefs(rng: &mut StdRng, n: &Uint, len: usize, pat: &str) -> Vec<Uint> {
    let nm1 = *n - Uint::ONE;
    // the residue whose Montgomery representative is the integer 1 (any residue is a valid input)
    let mont1 = {
        let mut m = MInt::default();
        m.0[0] = 1;
        ZmodN::new(*n).to_int(m)
    };
    (0..len)
        .map(|i| match pat {
            "zero" => Uint::ZERO,
            "one" => Uint::ONE,
            "nm1" => nm1,
            "rand" => rand_below(rng, n),
            "mont1" => mont1,
            "mixed" => match (i + len) % 5 {
                0 => Uint::ZERO,
                1 => Uint::ONE,
                2 => nm1,
                3 => rand_below(rng, n),
                _ => nm1 - Uint::ONE.min(nm1),
            },
            _ => panic!("unknown coefficient pattern"),
        })
        .collect()
}

fn unit(rng: &mut StdRng, n: &Uint) -> Uint {
    loop {
        let x = rand_below(rng, n);
        if !x.is_zero() && gcd(&x, n).is_one() {
            return x;
        }
    }
}

fn mints(zn: &ZmodN, v: &[Uint]) -> Vec<MInt> {
    v.iter().map(|x| zn.from_int(*x)).collect()
}

fn dig(v: &[Uint]) -> Value {
    Value::from(v.iter().map(dn).collect::<Vec<_>>())
}

fn res_dig(zn: &ZmodN, v: &[MInt]) -> Value {
    Value::from(v.iter().map(|x| dn(&zn.to_int(*x))).collect::<Vec<_>>())
}

fn pow2ceil(x: usize) -> usize {
    x.next_power_of_two()
}

fn lens_for(pat: &str, size: usize) -> (usize, usize) {
    let h = size / 2;
    let (a, b) = match pat {
        "full" => (size, size),
        "one" => (1, size),
        "two" => (size, 2),
        "halfm" => (h.saturating_sub(1), h),
        "halfp" => (h + 1, h + 1),
        "fullm1" => (size - 1, size),
        "nowrap" => (h, h), // la + lb - 1 < size: the cyclic product is the plain product
        _ => panic!("unknown length pattern"),
    };
    (a.clamp(1, size), b.clamp(1, size))
}

fn offset_for(pat: &str, size: usize) -> usize {
    match pat {
        "0" => 0,
        "1" => 1.min(size - 1),
        "half" => size / 2,
        "last" => size - 1,
        _ => panic!("unknown offset pattern"),
    }
}

// ---------------------------------------------------------------------------------------------

fn ev_conv_ss(rng: &mut StdRng, out: &mut Out, case: &str, sh: &Value) {
    let nw = sh["N"].as_u64().unwrap() as usize;
    let logpack = sh["logpack"].as_u64().unwrap() as u32;
    let stride = sh["stride"].as_u64().unwrap() as usize;
    let maxbits = sh["maxbits"].as_u64().unwrap() as u32;
    let sz = sh["sz"].as_u64().unwrap() as u32;
    let a = 1usize << logpack;
    let size = if a == 1 { 2usize << sz } else { a << sz };
    let bits = if sh["small"].as_bool().unwrap() { rng.gen_range(2..=64.min(maxbits)) } else { maxbits };
    let n = modulus(rng, bits);
    let zn = ZmodN::new(n);
    let (la, lb) = lens_for(sh["lens"].as_str().unwrap(), size);
    let pat = sh["coef"].as_str().unwrap();
    let (pa, pb) = (coefs(rng, &n, la, pat), coefs(rng, &n, lb, if pat == "zero" { "rand" } else { pat }));
    let offset = offset_for(sh["off"].as_str().unwrap(), size);
    let rlen = size - offset;
    let ev = json!({"op": "conv", "alg": "ss", "case": case, "shape": sh, "N": nw, "logpack": logpack, "stride": stride, "size": size,
                    "offset": offset, "bits": bits, "nd": n.to_string(), "n": dn(&n), "a": dig(&pa), "b": dig(&pb),
                    "wrap": la + lb - 1 > size, "la": la, "lb": lb});
    let (ma, mb) = (mints(&zn, &pa), mints(&zn, &pb));
    let zn2 = zn.clone();
    let r = guard(move || {
        let mut res = vec![MInt::default(); rlen];
        arith_fft::vhook::convolve_modn_raw(nw, &zn2, size, logpack, stride, &ma, &mb, &mut res, offset);
        res
    });
    out.ev(match r {
        Ok(res) => merge(ev, json!({"res": res_dig(&zn, &res)})),
        Err(e) => merge(ev, e),
    });
    // the public dispatcher on the same input (the table picks its own class for this modulus and size)
    if sh["lens"] == "full" || sh["lens"] == "nowrap" {
        let ev = json!({"op": "conv", "alg": "ss_public", "case": format!("{}p", case), "shape": sh, "size": size, "offset": offset, "bits": bits,
                        "nd": n.to_string(), "n": dn(&n), "a": dig(&pa), "b": dig(&pb), "wrap": la + lb - 1 > size, "la": la, "lb": lb});
        let (ma, mb) = (mints(&zn, &pa), mints(&zn, &pb));
        let zn2 = zn.clone();
        let r = guard(move || {
            let mut res = vec![MInt::default(); rlen];
            arith_fft::convolve_modn(&zn2, size, &ma, &mb, &mut res, offset);
            res
        });
        out.ev(match r {
            Ok(res) => merge(ev, json!({"res": res_dig(&zn, &res)})),
            Err(e) => merge(ev, e),
        });
    }
}

fn ev_conv_ntt(rng: &mut StdRng, out: &mut Out, case: &str, sh: &Value) {
    let w = sh["w"].as_u64().unwrap() as i64;
    let logsize = sh["logsize"].as_u64().unwrap() as u32;
    let k = logsize + sh["kextra"].as_u64().unwrap() as u32;
    // w = (2 bits + k) / 58 + 1
    let lo = ((58 * (w - 1) - k as i64) + 1).div_euclid(2).max(2);
    let hi = ((58 * w - 1 - k as i64).div_euclid(2)).min(500);
    if lo > hi {
        return;
    }
    let bits = match rng.gen_range(0..3) {
        0 => lo,
        1 => hi,
        _ => rng.gen_range(lo..=hi),
    } as u32;
    let n = modulus(rng, bits);
    let zn = ZmodN::new(n);
    let size = 1usize << logsize;
    let (la, lb) = lens_for(sh["lens"].as_str().unwrap(), size);
    let pat = sh["coef"].as_str().unwrap();
    let (pa, pb) = (coefs(rng, &n, la, pat), coefs(rng, &n, lb, if pat == "zero" { "rand" } else { pat }));
    let offset = offset_for(sh["off"].as_str().unwrap(), size);
    let rlen = size; // longer than size - offset: the tail must be zero
    let (ma, mb) = (mints(&zn, &pa), mints(&zn, &pb));
    let zn2 = zn.clone();
    let r = guard(move || {
        let mzp = MultiZmodP::new(&zn2, k);
        let (ww, kk) = arith_fft::vhook::mzp_params(&mzp);
        let mut res = vec![MInt::default(); rlen];
        convolve_modn_ntt(&mzp, size, &ma, &mb, &mut res, offset);
        (res, ww, kk)
    });
    let ev = json!({"op": "conv", "alg": "ntt", "case": case, "shape": sh, "size": size, "offset": offset, "bits": bits, "k": k,
                    "nd": n.to_string(), "n": dn(&n), "a": dig(&pa), "b": dig(&pb), "wrap": la + lb - 1 > size, "la": la, "lb": lb});
    out.ev(match r {
        Ok((res, ww, kk)) => merge(ev, json!({"res": res_dig(&zn, &res), "w": ww, "mzpk": kk})),
        Err(e) => merge(ev, e),
    });
}

/// Large transforms: the full cyclic product (offset 0) of two operands filling the whole transform, either of
/// period 2 with full-size values or sparse; only a sample of output coefficients is logged, TLC recomputes them
/// from the operand description by the closed forms of PolyConv.tla.
fn ev_conv_big(rng: &mut StdRng, out: &mut Out, case: &str, sh: &Value) {
    let alg = sh["alg"].as_str().unwrap().to_string();
    let bits = sh["bits"].as_u64().unwrap() as u32;
    let lg = sh["lg"].as_u64().unwrap() as u32;
    let pat = sh["pat"].as_str().unwrap();
    let size = 1usize << lg;
    // "mtop": the modulus is as large as its bit length allows and the operands are the residues whose MONTGOMERY
    // REPRESENTATIVES (what the packed transform really multiplies) are n - 1, n - 2, n - 3: every packed slot then
    // holds the largest sum it can ever hold
    let n = if pat == "mtop" { (Uint::ONE << bits) - Uint::ONE - Uint::from(2 * rng.gen_range(0..8u64)) } else { modulus(rng, bits) };
    let zn = ZmodN::new(n);
    let mut pa = vec![Uint::ZERO; size];
    let mut pb = vec![Uint::ZERO; size];
    let mut ev = json!({"op": "conv_big", "alg": alg, "case": case, "shape": sh, "size": size, "bits": bits, "pat": pat,
                        "nd": n.to_string(), "n": dn(&n)});
    let mut ks: Vec<usize> = vec![0, 1, 2, 3, size / 2, size / 2 + 1, size - 2, size - 1];
    if pat == "sparse" {
        let pick = |rng: &mut StdRng, v: &mut Vec<Uint>| -> Vec<(usize, Uint)> {
            let mut t: Vec<(usize, Uint)> = vec![];
            // first and last positions always, the others random
            let mut poss = vec![0usize, size - 1];
            for _ in 0..6 {
                poss.push(rng.gen_range(0..size));
            }
            for pos in poss {
                if t.iter().all(|x| x.0 != pos) {
                    let x = Uint::ONE + rand_below(rng, &(n - Uint::ONE));
                    v[pos] = x;
                    t.push((pos, x));
                }
            }
            t
        };
        let ap = pick(rng, &mut pa);
        let bp = pick(rng, &mut pb);
        ks.clear();
        for (i, _) in &ap {
            for (j, _) in &bp {
                ks.push((i + j) % size);
            }
        }
        ks.sort();
        ks.dedup();
        while ks.len() > 14 {
            let i = rng.gen_range(0..ks.len());
            ks.remove(i);
        }
        for _ in 0..4 {
            ks.push(rng.gen_range(0..size)); // mostly positions where the product is zero
        }
        ks.sort();
        ks.dedup();
        let pairs = |t: &[(usize, Uint)]| Value::from(t.iter().map(|(p, x)| json!([p, dn(x)])).collect::<Vec<_>>());
        ev["ap"] = pairs(&ap);
        ev["bp"] = pairs(&bp);
    } else {
        let val = |rng: &mut StdRng, d: u64| {
            if pat == "ptop" {
                n - Uint::from(d)
            } else if pat == "mtop" {
                let top = n - Uint::from(d);
                let mut w = MInt::default();
                let k = w.0.len();
                w.0.copy_from_slice(&top.digits()[..k]);
                zn.to_int(w)
            } else {
                rand_below(rng, &n)
            }
        };
        let d = |rng: &mut StdRng| 1 + rng.gen_range(0..3u64); // moduli here have at least 64 bits
        let (d1, d2, d3, d4) = (d(rng), d(rng), d(rng), d(rng));
        let pv = [val(rng, d1), val(rng, d2)];
        let qv = [val(rng, d3), val(rng, d4)];
        for i in 0..size {
            pa[i] = pv[i % 2];
            pb[i] = qv[i % 2];
        }
        for _ in 0..4 {
            ks.push(rng.gen_range(0..size));
        }
        ks.sort();
        ks.dedup();
        ev["pv"] = dig(&pv);
        ev["qv"] = dig(&qv);
    }
    ev["ks"] = json!(ks);
    let (ma, mb) = (mints(&zn, &pa), mints(&zn, &pb));
    let zn2 = zn.clone();
    let alg2 = alg.clone();
    let r = guard(move || {
        let mut res = vec![MInt::default(); size];
        if alg2 == "ntt" {
            let mzp = MultiZmodP::new(&zn2, lg);
            convolve_modn_ntt(&mzp, size, &ma, &mb, &mut res, 0);
        } else {
            arith_fft::convolve_modn(&zn2, size, &ma, &mb, &mut res, 0);
        }
        res
    });
    out.ev(match r {
        Ok(res) => {
            let cs: Vec<Uint> = ks.iter().map(|&k| zn.to_int(res[k])).collect();
            merge(ev, json!({"cs": dig(&cs)}))
        }
        Err(e) => merge(ev, e),
    });
}

fn ev_poly(rng: &mut StdRng, out: &mut Out, case: &str, sh: &Value) {
    let pop = sh["pop"].as_str().unwrap().to_string();
    let bits = sh["bits"].as_u64().unwrap() as u32;
    let len = sh["len"].as_u64().unwrap() as usize;
    let lenpat = sh["lenpat"].as_str().unwrap();
    let pat = sh["coef"].as_str().unwrap();
    let ntt = sh["ntt"].as_bool().unwrap();
    let n = modulus(rng, bits);
    let zn = ZmodN::new(n);
    let one = Uint::ONE % n;
    // operands
    let (pa, pb): (Vec<Uint>, Vec<Uint>) = match pop.as_str() {
        "mul_karatsuba" | "mul_basic" => {
            // documented: balanced lengths only
            let lb = if lenpat == "m1" && len > 1 { len - 1 } else { len };
            (coefs(rng, &n, len, pat), coefs(rng, &n, lb, pat))
        }
        "mul_fft" => {
            let lb = match lenpat {
                "m1" if len > 1 => len - 1,
                "big" => (len / 3).max(1),
                _ => len,
            };
            (coefs(rng, &n, len, pat), coefs(rng, &n, lb, pat))
        }
        "middle" => (coefs(rng, &n, 2 * len - 1, pat), coefs(rng, &n, len, pat)),
        "inv" => {
            let mut f = coefs(rng, &n, len, pat);
            f[0] = if pat == "one" || pat == "zero" { one } else { unit(rng, &n) };
            (f, vec![])
        }
        "quot" => {
            // z = p / q modulo x^len; q[0] invertible; "m1": both start with 1 (the code's special case)
            let mut p = coefs(rng, &n, len, pat);
            let mut q = coefs(rng, &n, len, if pat == "zero" { "rand" } else { pat });
            q[0] = if lenpat == "m1" || pat == "one" { one } else { unit(rng, &n) };
            if lenpat == "m1" {
                p[0] = one;
            }
            // explicit leading coefficients (p[0], q[0]): 1 or a random unit
            if let [lp, lq] = lenpat.as_bytes() {
                if lenpat != "eq" && lenpat != "m1" {
                    p[0] = if *lp == b'1' { one } else { unit(rng, &n) };
                    q[0] = if *lq == b'1' { one } else { unit(rng, &n) };
                }
            }
            (p, q)
        }
        "from_roots" => (coefs(rng, &n, len, pat), vec![]),
        "roots_eval" => {
            let la = match lenpat {
                "m1" if len > 1 => len - 1,
                "big" => 2 * len + 3,
                _ => len,
            };
            (coefs(rng, &n, la, pat), coefs(rng, &n, len, if pat == "zero" { "mixed" } else { pat }))
        }
        "multi_eval" => {
            // documented domain: at least as many points as coefficients, whole chunks
            let alen = match lenpat {
                "m1" => pow2ceil(len),
                "big" => 2 * pow2ceil(len),
                _ => len,
            };
            (coefs(rng, &n, len, pat), coefs(rng, &n, alen, if pat == "zero" { "mixed" } else { pat }))
        }
        _ => panic!("unknown poly op"),
    };
    if pop == "mul_fft" && pa.len() + pb.len() < 3 {
        return; // asserted precondition: transform size >= 2
    }
    let ringsize = if ntt { pow2ceil(pa.len().max(pb.len())).max(32) } else { 16 };
    let ev = json!({"op": match pop.as_str() { "mul_karatsuba" | "mul_fft" | "mul_basic" => "mul", o => o }, "alg": pop, "case": case,
                    "shape": sh, "bits": bits, "nd": n.to_string(), "n": dn(&n), "a": dig(&pa), "b": dig(&pb), "ringsize": ringsize,
                    "la": pa.len(), "lb": pb.len()});
    let (ma, mb) = (mints(&zn, &pa), mints(&zn, &pb));
    let zn2 = zn.clone();
    let r = guard(move || {
        let zr = PolyRing::new(&zn2, ringsize);
        let fft = arith_poly::vhook::has_ntt(&zr);
        let res: Vec<MInt> = match pop.as_str() {
            "mul_karatsuba" => Poly::mul_karatsuba(&Poly::new(&zr, ma), &Poly::new(&zr, mb)).c,
            "mul_basic" => Poly::mul_basic(&Poly::new(&zr, ma), &Poly::new(&zr, mb)).c,
            "mul_fft" => Poly::mul_fft(&Poly::new(&zr, ma), &Poly::new(&zr, mb)).c,
            "middle" => Poly::middlemul(&Poly::new(&zr, ma), &Poly::new(&zr, mb)).c,
            "inv" => arith_poly::vhook::inv_mod_xn(&zr, &ma),
            "quot" => Poly::div_mod_xn(&Poly::new(&zr, ma), &Poly::new(&zr, mb)).c,
            "from_roots" => Poly::from_roots(&zr, &ma).c,
            "roots_eval" => Poly::roots_eval(&zn2, &ma, &mb),
            "multi_eval" => Poly::new(&zr, ma).multi_eval(&mb),
            _ => unreachable!(),
        };
        (res, fft)
    });
    out.ev(match r {
        Ok((res, fft)) => merge(ev, json!({"res": res_dig(&zn, &res), "fft": fft})),
        Err(e) => merge(ev, e),
    });
}

// ---------------------------------------------------------------------------------------------
// integers modulo 2^(64 N) + 1
// ---------------------------------------------------------------------------------------------

fn fpat(rng: &mut StdRng, nw: usize, pat: &str) -> Vec<u64> {
    // N low words followed by the top word (normalised: top = 1 only with all low words 0)
    let mut v = vec![0u64; nw + 1];
    match pat {
        "zero" => {}
        "one" => v[0] = 1,
        "top" => v[nw] = 1,
        "max" => v[..nw].fill(!0),
        "rand" => v[..nw].iter_mut().for_each(|x| *x = rng.gen()),
        "half" => v[nw - 1] = 1 << 63,
        "lowones" => {
            let k = rng.gen_range(1..nw);
            v[..k].fill(!0);
            v[nw - 1] = rng.gen();
        }
        // words drawn from a few extreme values: sub-products with all-ones / zero low words (carry chains of the
        // Karatsuba recombination)
        "runs" => v[..nw].iter_mut().for_each(|x| {
            *x = match rng.gen_range(0..6) {
                0 => 0,
                1 | 2 => !0,
                3 => 1,
                4 => !0 - 1,
                _ => 1 << 63,
            }
        }),
        // 2^a - 2^b: one run of ones
        "pow2diff" => {
            let a = rng.gen_range(1..64 * nw);
            let b = rng.gen_range(0..a);
            for i in b..a {
                v[i / 64] |= 1 << (i % 64);
            }
        }
        _ => panic!("unknown FInt pattern"),
    }
    v
}

fn fint_ev(out: &mut Out, case: &str, sh: &Value, nw: usize, fop: &str, a: &[u64], b: &[u64], s: u32, k: u32) {
    let ev = json!({"op": "fint", "case": case, "shape": sh, "N": nw, "fop": fop, "a": digits_from_words(a), "b": digits_from_words(b), "s": s, "k": k});
    let (aa, bb, f) = (a.to_vec(), b.to_vec(), fop.to_string());
    let r = guard(move || arith_fft::vhook::fint_op(nw, &f, &aa, &bb, s, k));
    out.ev(match r {
        Ok(rs) => {
            let mut x = json!({"r1": digits_from_words(&rs[0])});
            if rs.len() > 1 {
                x["r2"] = digits_from_words(&rs[1]);
            }
            merge(ev, x)
        }
        Err(e) => merge(ev, e),
    });
}

fn ev_fint(rng: &mut StdRng, out: &mut Out, case: &str, sh: &Value) {
    let nw = sh["N"].as_u64().unwrap() as usize;
    let fop = sh["fop"].as_str().unwrap();
    let a = fpat(rng, nw, sh["pa"].as_str().unwrap());
    let b = fpat(rng, nw, sh["pb"].as_str().unwrap());
    let m = 64 * nw as u32;
    match fop {
        "add" | "sub" | "mul" | "butterfly" => fint_ev(out, case, sh, nw, fop, &a, &b, 0, 0),
        "shl" | "shr" => {
            let shifts = [0, 1, 63, 64, 65, m / 2, m - 1, m, m + 1, m + 64, 2 * m - 64, 2 * m - 1, rng.gen_range(0..2 * m), rng.gen_range(0..2 * m)];
            let pick = if nw <= 32 { shifts.len() } else { 4 };
            let start = rng.gen_range(0..shifts.len());
            for t in 0..pick {
                let s = shifts[(start + t * 3) % shifts.len()];
                fint_ev(out, &format!("{}.{}", case, t), sh, nw, fop, &a, &b, s, 0);
            }
        }
        "twiddle" => {
            // omega^i for a primitive 2^k-th root of unity, 2^k <= 256 N (odd i with 2^k = 256 N use sqrt(2))
            let kmax = (256 * nw).trailing_zeros();
            let ks = [1, 2, kmax / 2, kmax - 2, kmax - 1, kmax, kmax, kmax];
            let pick = if nw <= 32 { ks.len() } else { 3 };
            for t in 0..pick {
                let k = ks[ks.len() - 1 - t];
                let i = match t % 4 {
                    0 => rng.gen_range(0..1u32 << k) | 1,
                    1 => rng.gen_range(0..1u32 << k),
                    2 => (1u32 << k) - 1,
                    _ => 1u32 << (k - 1),
                };
                fint_ev(out, &format!("{}.{}", case, t), sh, nw, fop, &a, &b, i, k);
            }
        }
        "reduce" => {
            // low words + small top word, not normalised
            for (t, top) in [0u64, 1, 2, 3, 4, 1 << 20].iter().enumerate() {
                let mut x = a.clone();
                x[nw] = *top;
                if t % 2 == 1 {
                    x[0] = rng.gen_range(0..8);
                    if sh["pa"] == "zero" || sh["pa"] == "one" {
                        x[1..nw].fill(0);
                    }
                }
                fint_ev(out, &format!("{}.{}", case, t), sh, nw, fop, &x, &b, 0, 0);
            }
        }
        _ => panic!("unknown FInt op"),
    }
}

pub fn run(args: &Args) -> i32 {
    let seed = arg_u64(args, "seed", 1);
    let shapes = read_ndjson(arg_str(args, "shapes", "shapes.ndjson"));
    let mut out = Out::create(arg_str(args, "out", "trace.ndjson"));
    let mut rng = rng_for(seed, "c10");
    let x = (Uint::ONE << 200) + Uint::from(777u64);
    out.ev(json!({"op": "selftest", "case": "selftest", "x": dn(&x), "c": 777, "xd": x.to_string()}));
    for (si, sh) in shapes.iter().enumerate() {
        let case = format!("s{}", si);
        match sh["op"].as_str().unwrap() {
            "fint" => ev_fint(&mut rng, &mut out, &case, sh),
            "conv_ss" => ev_conv_ss(&mut rng, &mut out, &case, sh),
            "conv_ntt" => ev_conv_ntt(&mut rng, &mut out, &case, sh),
            "poly" => ev_poly(&mut rng, &mut out, &case, sh),
            "conv_big" => ev_conv_big(&mut rng, &mut out, &case, sh),
            o => panic!("unknown shape op {}", o),
        }
    }
    out.finish();
    0
}
