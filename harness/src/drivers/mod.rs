use crate::trace::Args;

pub mod c07_montgomery;
pub mod selftest;
pub mod c01;
pub mod factor_common;
pub mod c02;
pub mod c03;
pub mod c04;
pub mod c05;
pub mod c06;
pub mod c08;
pub mod c09;
pub mod c10;
pub mod c11;
pub mod c12;
pub mod c13;
pub mod c14;
pub mod c15;
pub mod c16;
pub mod c17;
pub mod c18;
pub mod c19;
pub mod c20;
pub mod cli;
pub mod cls;
pub mod rho;

pub fn dispatch(name: &str, args: &Args) -> i32 {
    match name {
        "c07" => c07_montgomery::run(args),
        "selftest" => selftest::run(args),
        "c01" => c01::run(args),
        "c02" => c02::run(args),
        "c03" => c03::run(args),
        "c04" => c04::run(args),
        "c05" => c05::run(args),
        "c06" => c06::run(args),
        "c08" => c08::run(args),
        "c09" => c09::run(args),
        "c10" => c10::run(args),
        "c11" => c11::run(args),
        "c12" => c12::run(args),
        "c13" => c13::run(args),
        "c14" => c14::run(args),
        "c15" => c15::run(args),
        "c16" => c16::run(args),
        "c17" => c17::run(args),
        "c18" => c18::run(args),
        "c19" => c19::run(args),
        "c20" => c20::run(args),
        "cli" => cli::run(args),
        "cls" => cls::run(args),
        "rho" => rho::run(args),
        _ => {
            eprintln!("unknown driver {}", name);
            2
        }
    }
}
