use crate::trace::Args;

pub mod c07_montgomery;

pub fn dispatch(name: &str, args: &Args) -> i32 {
    match name {
        "c07" => c07_montgomery::run(args),
        _ => {
            eprintln!("unknown driver {}", name);
            2
        }
    }
}
