//! C03 driver: calls of `yamaquasi::factor` on the input space of spec/factor/FactorShapes.tla
//! (see factor_common.rs for the machinery shared by C01 / C02 / C03).
use crate::trace::Args;

pub fn run(args: &Args) -> i32 {
    super::factor_common::run_prop(args, "C03")
}
