//! C06 driver: primality decisions (`isprime64`, `pseudoprime`).
//!
//! The driver records the answers of the library together with a witness of the truth that the
//! specification (spec/primality/PrimalityTrace.tla) verifies by itself: nothing for p < 2^31 (TLC
//! decides), a non-trivial divisor found by the driver's own trial division / rho for composites, a
//! Pocklington chain from the certified pool for primes.  Numbers whose status the driver cannot
//! certify are not logged.  The library is never asked for a witness.

use rand::rngs::StdRng;
use rand::Rng;
use serde_json::{json, Value};

use yamaquasi::{isprime64, pseudoprime};

use crate::gen::{gcd, is_prime_u64, powmod, probably_prime, rand_bits, rng_for, Pool, Uint};
use crate::trace::*;

fn mm(a: u64, b: u64, n: u64) -> u64 {
    ((a as u128 * b as u128) % n as u128) as u64
}

/// strong probable prime test to base a (own code)
fn sprp(n: u64, a: u64) -> bool {
    if n < 3 || n % 2 == 0 {
        return n == 2;
    }
    let mut d = n - 1;
    let mut s = 0;
    while d % 2 == 0 {
        d /= 2;
        s += 1;
    }
    let (mut x, mut b, mut e) = (1u64, a % n, d);
    if b == 0 {
        return true;
    }
    while e > 0 {
        if e & 1 == 1 {
            x = mm(x, b, n);
        }
        b = mm(b, b, n);
        e >>= 1;
    }
    if x == 1 || x == n - 1 {
        return true;
    }
    for _ in 1..s {
        x = mm(x, x, n);
        if x == n - 1 {
            return true;
        }
    }
    false
}

fn gcd64(mut a: u64, mut b: u64) -> u64 {
    while b != 0 {
        let r = a % b;
        a = b;
        b = r;
    }
    a
}

/// a non-trivial divisor of a composite n (own trial division, then Pollard rho)
fn divisor(n: u64) -> Option<u64> {
    if n < 4 {
        return None;
    }
    let mut d = 2u64;
    while d < 50_000 && d * d <= n {
        if n % d == 0 {
            return Some(d);
        }
        d += 1;
    }
    if d * d > n || is_prime_u64(n) {
        return None;
    }
    for c in 1u64..200 {
        let f = |x: u64| (mm(x, x, n) + c) % n;
        let (mut x, mut y, mut g) = (2u64, 2u64, 1u64);
        let mut steps = 0u64;
        while g == 1 && steps < 50_000_000 {
            x = f(x);
            y = f(f(y));
            g = gcd64(x.abs_diff(y), n);
            steps += 1;
        }
        if g != 1 && g != n {
            return Some(g);
        }
    }
    None
}

struct Ctx {
    out: Out,
    timeouts: u32,
}

impl Ctx {
    /// one p < 2^64: both functions, with the witness the spec needs
    fn ev64(&mut self, p: u64, fam: &str, chain: Option<Value>) {
        let wit = if p < (1 << 31) - 1 {
            json!({"kind": "small", "ps": p})
        } else if let Some(c) = chain {
            json!({"kind": "chain", "chain": c})
        } else if let Some(d) = divisor(p) {
            json!({"kind": "div", "d": du(d)})
        } else {
            return; // a prime without certificate (or nothing found): not logged
        };
        if self.timeouts >= 2 && p % 2 == 0 {
            return; // the hang on even inputs has been recorded twice already; do not burn more threads
        }
        let base = json!({"op": "isprime64", "case": format!("p64/{}/{}", fam, p), "fam": fam, "p": du(p), "pd": p.to_string(), "wit": wit});
        match guard_deadline(20.0, move || (isprime64(p), pseudoprime(Uint::from(p)))) {
            Ok((a, b)) => self.out.ev2(base, json!({"r64": a, "rmp": b})),
            Err(e) => {
                if e["outcome"] == "timeout" {
                    self.timeouts += 1;
                }
                self.out.ev2(base, e)
            }
        }
    }

    /// one p >= 2^64
    fn evbig(&mut self, p: Uint, fam: &str, wit: Value, fs: Option<Vec<Uint>>) {
        assert!(p.bits() > 64);
        let mut base = json!({"op": "pseudoprime", "case": format!("big/{}/{}", fam, p), "fam": fam, "p": dn(&p), "pd": p.to_string(),
                              "bits": p.bits(), "wit": wit});
        if let Some(fs) = fs {
            base["fs"] = Value::from(fs.iter().map(dn).collect::<Vec<_>>());
        }
        match guard_deadline(120.0, move || pseudoprime(p)) {
            Ok(r) => self.out.ev2(base, json!({"r": r})),
            Err(e) => self.out.ev2(base, e),
        }
    }

    fn block(&mut self, lo: u64, n: u64) {
        if self.timeouts >= 1 {
            return;
        }
        assert!(lo + n < (1 << 31));
        let base = json!({"op": "isprime_block", "case": format!("blk/{}", lo), "lo": lo, "n": n});
        let r = guard_deadline(30.0, move || {
            let r64: Vec<u64> = (0..n).filter(|&k| isprime64(lo + k)).collect();
            let rmp: Vec<u64> = (0..n).filter(|&k| pseudoprime(Uint::from(lo + k))).collect();
            (r64, rmp)
        });
        match r {
            Ok((a, b)) => self.out.ev2(base, json!({"r64": a, "rmp": b})),
            Err(e) => {
                if e["outcome"] == "timeout" {
                    self.timeouts += 1;
                }
                self.out.ev2(base, e)
            }
        }
    }
}

fn div_wit(d: &Uint) -> Value {
    json!({"kind": "div", "d": dn(d)})
}

/// certified prime p = m * q * 2^64 + 1 (low word 1: the 2-adic valuation of p - 1 is >= 64)
fn low_word_one_prime(pool: &mut Pool, rng: &mut StdRng, qbits: u32) -> Option<(Uint, Value)> {
    let q = pool.prime(qbits);
    let mut chain = pool.chain_of(&q)?.as_array()?.clone();
    for m in 1u64..200_000 {
        let p = ((Uint::from(m) * q) << 64) + Uint::ONE;
        if !(q * q > p) {
            break;
        }
        if !probably_prime(rng, &p) {
            continue;
        }
        let pm1 = p - Uint::ONE;
        let e = pm1 / q;
        for a in 2u64..200 {
            let au = Uint::from(a);
            if !powmod(&au, &pm1, &p).is_one() {
                break;
            }
            let t = powmod(&au, &e, &p);
            if gcd(&((t + p - Uint::ONE) % p), &p).is_one() {
                chain.push(json!({"p": dn(&p), "q": dn(&q), "a": a}));
                return Some((p, Value::from(chain)));
            }
        }
    }
    None
}

pub fn run(args: &Args) -> i32 {
    let tier = arg_str(args, "tier", "quick").to_string();
    let thorough = tier == "thorough";
    let seed = arg_u64(args, "seed", 1);
    let mut rng = rng_for(seed, "c06");
    let mut pool = Pool::new(seed);
    let verbose = args.contains_key("verbose");
    let t0 = std::time::Instant::now();
    let mut c = Ctx { out: Out::create(arg_str(args, "out", "trace.ndjson")), timeouts: 0 };

    if verbose { eprintln!("[c06] stage 0 {:?}", t0.elapsed()); }
    // ---- A. exhaustive blocks of small integers
    if thorough {
        for b in 0..(1u64 << 22) / 1024 {
            c.block(b * 1024, 1024);
        }
    } else {
        for b in 0..(1u64 << 16) / 256 {
            c.block(b * 256, 256);
        }
        for b in 0..16 {
            c.block((1 << 20) - 2048 + b * 256, 256);
        }
    }
    c.block(1373653 - 128, 256);
    c.block(25326001 - 128, 256);
    c.block((1 << 31) - 258, 256);
    for _ in 0..(if thorough { 64 } else { 8 }) {
        let lo = rng.gen_range(1u64 << 16..(1 << 31) - 600);
        c.block(lo, 256);
    }

    if verbose { eprintln!("[c06] stage 1 {:?}", t0.elapsed()); }
    // ---- B. every strong pseudoprime to bases 2 and 3 below a bound (own scan), decided by TLC itself
    let lim: u64 = if thorough { 1 << 27 } else { 1 << 24 };
    let mut n = 9u64;
    while n < lim {
        if sprp(n, 2) && sprp(n, 3) && !is_prime_u64(n) {
            c.ev64(n, "spsp23", None);
        }
        n += 2;
    }

    if verbose { eprintln!("[c06] stage 2 {:?}", t0.elapsed()); }
    // ---- C. published least strong pseudoprimes psi_k and further strong pseudoprimes to many bases
    for &v in &[2047u64, 1373653, 25326001, 3215031751, 2152302898747, 3474749660383, 341550071728321, 3825123056546413051] {
        c.ev64(v, "psi", None);
    }
    // strong pseudoprimes to several prime bases found in the literature; each is checked here to be composite
    // (own test) and carries a divisor, so a misremembered value costs nothing
    for &v in &[
        3215031751u64, 118670087467, 307768373641, 315962312077, 354864744877, 457453568161, 528929554561, 546348519181,
        602248359169, 1362242655901, 1871186716981, 2152302898747, 2273312197621, 2366338900801, 3343433905957,
        3461715915661, 3474749660383, 3477707481751, 4341937413061, 4777422165601, 5537838510751, 7999252175582851,
        585226005592931977, 84983557412237221, 230245660726188031, 1134931906634489281, 1144336081150073701,
        1167748053436849501, 1646697619851137101, 4265186605968234451, 5474093792130026911, 7033671664103127781,
        7361235187296010651, 8276442534101054431, 18446744073709551615, 18446744073709551557, 18446744073709551533,
    ] {
        if !is_prime_u64(v) {
            c.ev64(v, "spsp", None);
        }
    }
    // beyond 64 bits: psi_12 and psi_13 (proved), and the upper bounds of Zhang for psi_14, psi_15, psi_16 = psi_17,
    // psi_18 = psi_19 (strong pseudoprimes to the first 14, 15, 17, 19 primes), all of the form p(2p-1): together they
    // reject a test that uses fewer than 20 of the small prime bases
    for &pp in &[399165290221u64, 1287836182261, 54786377365501, 172157429516701, 531099297693901, 27778299663977101] {
        let p = Uint::from(pp);
        let q = p * Uint::from(2u64) - Uint::ONE;
        c.evbig(p * q, "psi", div_wit(&p), Some(vec![p, q]));
    }

    if verbose { eprintln!("[c06] stage 3 {:?}", t0.elapsed()); }
    // ---- D. structured composites p(2p-1), p(3p-2) around the thresholds and up to 2^64, and beyond
    for (mult, fam) in [(2u64, "p2p1"), (3u64, "p3p2")] {
        // p * (mult*p - (mult-1)) ~ target  =>  p ~ sqrt(target / mult)
        let mut starts: Vec<u64> = vec![];
        for t in [20u32, 31, 32, 40, 48, 63, 64] {
            let p0 = ((2f64.powi(t as i32) / mult as f64).sqrt()) as u64;
            starts.push(p0);
        }
        for &p0 in &starts {
            // nearest 4 on each side with both factors prime
            for dir in [-1i64, 1] {
                let mut p = p0 as i64;
                let mut found = 0;
                let mut steps = 0;
                while found < 4 && steps < 200_000 && p > 3 {
                    p += dir;
                    steps += 1;
                    let pu = p as u64;
                    let q = mult as u128 * pu as u128 - (mult as u128 - 1);
                    if q >> 64 != 0 || !is_prime_u64(pu) || !is_prime_u64(q as u64) {
                        continue;
                    }
                    let nn = pu as u128 * q;
                    found += 1;
                    if nn >> 64 == 0 {
                        c.ev64(nn as u64, fam, None);
                    } else {
                        let (a, b) = (Uint::from(pu), Uint::from(q as u64));
                        c.evbig(a * b, fam, div_wit(&a), Some(vec![a, b]));
                    }
                }
            }
        }
        // seeded ones of all sizes, below and above 64 bits
        for bits in [12u32, 17, 22, 26, 30, 33, 36, 40, 50, 64, 80, 100, 128, 200, 249] {
            let mut found = 0;
            let mut tries = 0;
            while found < (if thorough { 4 } else { 1 }) && tries < 400_000 {
                tries += 1;
                let p = rand_bits(&mut rng, bits) | Uint::ONE;
                let q = p * Uint::from(mult) - Uint::from(mult - 1);
                if !probably_prime(&mut rng, &p) || !probably_prime(&mut rng, &q) {
                    continue;
                }
                found += 1;
                let nn = p * q;
                if nn.bits() <= 64 {
                    c.ev64(nn.digits()[0], fam, None);
                } else {
                    c.evbig(nn, fam, div_wit(&p), Some(vec![p, q]));
                }
            }
        }
    }
    if verbose { eprintln!("[c06] stage 4 {:?}", t0.elapsed()); }
    // Chernick numbers (6k+1)(12k+1)(18k+1) with three prime factors: all below 2^64 nearest to the thresholds,
    // a seeded sample, and larger ones
    let mut chern: Vec<(u64, u64)> = vec![]; // (k, n)
    for k in 1u64..240_000 {
        let (a, b, cc) = (6 * k + 1, 12 * k + 1, 18 * k + 1);
        if is_prime_u64(a) && is_prime_u64(b) && is_prime_u64(cc) {
            let nn = a as u128 * b as u128 * cc as u128;
            if nn >> 64 == 0 {
                chern.push((k, nn as u64));
            }
        }
    }
    let mut picked: Vec<u64> = vec![];
    for t in [20u32, 40, 64] {
        let target = if t == 64 { u64::MAX } else { 1u64 << t };
        let pos = chern.partition_point(|&(_, n)| n < target);
        for i in pos.saturating_sub(3)..(pos + 3).min(chern.len()) {
            picked.push(chern[i].1);
        }
    }
    for i in 0..chern.len().min(4) {
        picked.push(chern[i].1);
    }
    for _ in 0..(if thorough { 200 } else { 30 }) {
        picked.push(chern[rng.gen_range(0..chern.len())].1);
    }
    picked.sort();
    picked.dedup();
    for n in picked {
        c.ev64(n, "chernick", None);
    }
    for bits in [22u32, 30, 41, 63, 80] {
        let mut found = 0;
        let mut tries = 0;
        while found < (if thorough { 3 } else { 1 }) && tries < 3_000_000 {
            tries += 1;
            let k = rand_bits(&mut rng, bits);
            let a = k * Uint::from(6u64) + Uint::ONE;
            let b = k * Uint::from(12u64) + Uint::ONE;
            let cc = k * Uint::from(18u64) + Uint::ONE;
            if (a % Uint::from(5u64)).is_zero() || (b % Uint::from(5u64)).is_zero() || (cc % Uint::from(5u64)).is_zero() {
                continue;
            }
            if !probably_prime(&mut rng, &a) || !probably_prime(&mut rng, &b) || !probably_prime(&mut rng, &cc) {
                continue;
            }
            found += 1;
            c.evbig(a * b * cc, "chernick", div_wit(&a), Some(vec![a, b, cc]));
            // the same number seen as a Carmichael number (Korselt's criterion checked by the spec)
            c.evbig(a * b * cc, "carmichael", div_wit(&b), Some(vec![a, b, cc]));
        }
    }
    if verbose { eprintln!("[c06] stage 5 {:?}", t0.elapsed()); }
    // every Carmichael number in a window around 2^20 (own factorisation + Korselt), decided by TLC itself
    let mut n = (1u64 << 20) - 300_000 + 1;
    while n < (1 << 20) + 300_000 {
        if !is_prime_u64(n) {
            let mut m = n;
            let mut ok = true;
            let mut nf = 0;
            let mut d = 3;
            while d * d <= m && ok {
                if m % d == 0 {
                    m /= d;
                    nf += 1;
                    if m % d == 0 || (n - 1) % (d - 1) != 0 {
                        ok = false;
                    }
                }
                d += 2;
            }
            if ok && m > 1 {
                nf += 1;
                ok = (n - 1) % (m - 1) == 0;
            }
            if ok && nf >= 3 {
                c.ev64(n, "carmichael", None);
            }
        }
        n += 2;
    }
    // known Carmichael numbers around 2^40 and up to 2^64 are covered by the Chernick family above

    if verbose { eprintln!("[c06] stage 6 {:?}", t0.elapsed()); }
    // ---- E. even numbers and numbers with a small factor at the word boundaries
    for k in [8u32, 16, 20, 31, 32, 40, 48, 63] {
        for d in [-2i64, 0, 2] {
            c.ev64(((1u64 << k) as i64 + d) as u64, "even", None);
        }
        for d in [-1i64, 1, 3] {
            let v = ((1u64 << k) as i64 + d) as u64;
            if !is_prime_u64(v) {
                c.ev64(v, "boundary", None);
            }
        }
    }
    for v in [198u64, 200, 202, 1 << 33, u64::MAX - 1, u64::MAX - 3, u64::MAX, u64::MAX - 2, u64::MAX - 4, 6, 1 << 62] {
        if !is_prime_u64(v) {
            c.ev64(v, if v % 2 == 0 { "even" } else { "boundary" }, None);
        }
    }
    let two = Uint::from(2u64);
    for k in [64u32, 65, 127, 128, 129, 191, 192, 256, 320, 448, 499] {
        for d in [0u64, 2, 4] {
            let v = (Uint::ONE << k) + Uint::from(d);
            c.evbig(v, "even", div_wit(&two), None);
        }
        if k > 64 {
            let v = (Uint::ONE << k) - two;
            c.evbig(v, "even", div_wit(&two), None);
        }
        // odd neighbours with a small factor (own trial division)
        for d in [1u64, 3, 5, 7, 9] {
            let v = (Uint::ONE << k) + Uint::from(d);
            for f in [3u64, 5, 7, 11, 13, 17, 19, 23, 29, 31, 37, 41, 43] {
                if (v % Uint::from(f)).is_zero() {
                    c.evbig(v, "smallfactor", div_wit(&Uint::from(f)), None);
                    break;
                }
            }
        }
    }

    if verbose { eprintln!("[c06] stage 7 {:?}", t0.elapsed()); }
    // ---- F. certified primes, 33..64 bits (exactness) and above (never rejected), and products of two of them
    let reps = if thorough { 4 } else { 1 };
    let mut primes64: Vec<u64> = vec![];
    for bits in 32..=64u32 {
        for _ in 0..reps {
            let p = pool.prime(bits);
            let ch = pool.chain_of(&p);
            primes64.push(p.digits()[0]);
            c.ev64(p.digits()[0], "prime", ch);
        }
    }
    if verbose { eprintln!("[c06] stage 8 {:?}", t0.elapsed()); }
    // close to the thresholds and to 2^64
    let near = |bits: u32, hi: bool| -> Box<dyn Fn(&Uint) -> bool> {
        // the 9 bits after the leading one: all ones (just below 2^bits) or below 1/8 (just above 2^(bits-1))
        Box::new(move |p: &Uint| {
            let t = (*p >> (bits - 10)).digits()[0] & 0x1ff;
            if hi {
                t == 0x1ff
            } else {
                t < 0x40
            }
        })
    };
    for (bits, hi) in [(40u32, true), (41, false), (64, true), (64, true), (64, true), (63, true), (65, false), (65, false)] {
        let f = near(bits, hi);
        let p = pool.prime_with(bits, &*f);
        let ch = pool.chain_of(&p);
        if bits <= 64 {
            c.ev64(p.digits()[0], "prime_edge", ch);
        } else {
            c.evbig(p, "prime_edge", json!({"kind": "chain", "chain": ch}), None);
        }
    }
    if verbose { eprintln!("[c06] stage 9 {:?}", t0.elapsed()); }
    let mut bigbits: Vec<u32> = vec![65, 66, 72, 80, 96, 112, 127, 128, 129, 160, 192, 224, 256];
    if thorough {
        bigbits.extend_from_slice(&[65, 97, 128, 130, 193, 255, 257, 320, 384, 448, 500]);
    }
    let mut bigprimes: Vec<Uint> = vec![];
    for &bits in &bigbits {
        let p = pool.prime(bits);
        let ch = pool.chain_of(&p);
        bigprimes.push(p);
        c.evbig(p, "prime", json!({"kind": "chain", "chain": ch}), None);
    }
    if verbose { eprintln!("[c06] stage 10 {:?}", t0.elapsed()); }
    // primes with low word 1 (valuation of p - 1 at least 64: the shift by s = 64 in pseudoprime)
    for qbits in [70u32, 80, 100] {
        if let Some((p, ch)) = low_word_one_prime(&mut pool, &mut rng, qbits) {
            c.evbig(p, "prime_lowword1", json!({"kind": "chain", "chain": ch}), None);
        }
    }
    if verbose { eprintln!("[c06] stage 11 {:?}", t0.elapsed()); }
    // products of two primes
    for i in 0..primes64.len() / 2 {
        let (a, b) = (primes64[i], primes64[primes64.len() - 1 - i]);
        let nn = a as u128 * b as u128;
        if nn >> 64 == 0 {
            c.ev64(nn as u64, "semiprime", None);
        } else {
            c.evbig(Uint::from(a) * Uint::from(b), "semiprime", div_wit(&Uint::from(a)), None);
        }
    }
    for i in 0..6 {
        let (a, b) = (pool.prime(20 + 2 * i), pool.prime(30 + i));
        c.ev64(a.digits()[0] * b.digits()[0], "semiprime", None);
    }
    for i in 0..bigprimes.len().min(8) {
        let (a, b) = (bigprimes[i], bigprimes[(i + 3) % bigprimes.len()]);
        if (a * b).bits() <= 500 {
            c.evbig(a * b, "semiprime", div_wit(&a), None);
        }
    }
    c.out.finish();
    0
}
