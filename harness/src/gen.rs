//! Seeded generation of numbers, and a pool of primes that come with Pocklington certificates
//! (verified by spec/lib/Certs.tla, so the pool does not rely on the library under test).

use bnum::types::{U1024, U2048};
use bnum::cast::CastFrom;
use rand::rngs::StdRng;
use rand::{Rng, SeedableRng};
use serde_json::{json, Value};

use crate::trace::dn;

pub type Uint = U1024;

pub fn rng_for(seed: u64, salt: &str) -> StdRng {
    let mut h: u64 = 0xcbf29ce484222325;
    for b in salt.bytes() {
        h = (h ^ b as u64).wrapping_mul(0x100000001b3);
    }
    StdRng::seed_from_u64(seed ^ h)
}

/// uniformly random integer with exactly `bits` bits (0 for bits = 0)
pub fn rand_bits(rng: &mut StdRng, bits: u32) -> Uint {
    if bits == 0 {
        return Uint::ZERO;
    }
    let mut d = [0u64; 16];
    let words = ((bits + 63) / 64) as usize;
    for w in d.iter_mut().take(words) {
        *w = rng.gen();
    }
    let top = (bits - 1) % 64;
    d[words - 1] &= if top == 63 { u64::MAX } else { (1u64 << (top + 1)) - 1 };
    d[words - 1] |= 1u64 << top;
    Uint::from_digits(d)
}

/// uniformly random integer in [0, n)
pub fn rand_below(rng: &mut StdRng, n: &Uint) -> Uint {
    if n.is_zero() {
        return Uint::ZERO;
    }
    let bits = n.bits();
    loop {
        let mut d = [0u64; 16];
        let words = ((bits + 63) / 64) as usize;
        for w in d.iter_mut().take(words) {
            *w = rng.gen();
        }
        let top = bits % 64;
        if top != 0 {
            d[words - 1] &= (1u64 << top) - 1;
        }
        let x = Uint::from_digits(d);
        if x < *n {
            return x;
        }
    }
}

pub fn mulmod(a: &Uint, b: &Uint, n: &Uint) -> Uint {
    // operands below 2^1024: use a double width product
    let p = U2048::cast_from(*a) * U2048::cast_from(*b);
    Uint::cast_from(p % U2048::cast_from(*n))
}

pub fn powmod(b: &Uint, e: &Uint, n: &Uint) -> Uint {
    let mut r = Uint::ONE % *n;
    let mut x = *b % *n;
    for i in 0..e.bits() {
        if e.bit(i) {
            r = mulmod(&r, &x, n);
        }
        x = mulmod(&x, &x, n);
    }
    r
}

pub fn gcd(a: &Uint, b: &Uint) -> Uint {
    let (mut a, mut b) = (*a, *b);
    while !b.is_zero() {
        let r = a % b;
        a = b;
        b = r;
    }
    a
}

pub fn is_prime_u64(n: u64) -> bool {
    // deterministic Miller-Rabin, independent of the library under test
    if n < 2 {
        return false;
    }
    for p in [2u64, 3, 5, 7, 11, 13, 17, 19, 23, 29, 31, 37] {
        if n % p == 0 {
            return n == p;
        }
    }
    let mut d = n - 1;
    let mut s = 0;
    while d % 2 == 0 {
        d /= 2;
        s += 1;
    }
    let mm = |a: u64, b: u64| ((a as u128 * b as u128) % n as u128) as u64;
    'outer: for a in [2u64, 3, 5, 7, 11, 13, 17, 19, 23, 29, 31, 37] {
        let mut x = 1u64;
        let mut b = a % n;
        let mut e = d;
        while e > 0 {
            if e & 1 == 1 {
                x = mm(x, b);
            }
            b = mm(b, b);
            e >>= 1;
        }
        if x == 1 || x == n - 1 {
            continue;
        }
        for _ in 0..s - 1 {
            x = mm(x, x);
            if x == n - 1 {
                continue 'outer;
            }
        }
        return false;
    }
    true
}

/// Miller-Rabin with random bases (generator side only: candidates are then certified)
pub fn probably_prime(rng: &mut StdRng, n: &Uint) -> bool {
    if n.bits() <= 64 {
        return is_prime_u64(n.digits()[0]);
    }
    for p in [2u64, 3, 5, 7, 11, 13, 17, 19, 23, 29, 31, 37, 41, 43, 47, 53, 59, 61, 67, 71] {
        if (*n % Uint::from(p)).is_zero() {
            return false;
        }
    }
    let nm1 = *n - Uint::ONE;
    let s = nm1.trailing_zeros();
    let d = nm1 >> s;
    'outer: for _ in 0..12 {
        let a = rand_below(rng, &(nm1 - Uint::ONE)) + Uint::from(2u64);
        let mut x = powmod(&a, &d, n);
        if x.is_one() || x == nm1 {
            continue;
        }
        for _ in 0..s - 1 {
            x = mulmod(&x, &x, n);
            if x == nm1 {
                continue 'outer;
            }
        }
        return false;
    }
    true
}

/// A prime with the data of its certificate.  Base primes (< 2^31) are certified by trial division
/// in the spec; larger ones by Pocklington: q | p-1, q prime (certified before), q*q > p,
/// a^(p-1) = 1 and gcd(a^((p-1)/q) - 1, p) = 1.
#[derive(Clone, Debug)]
pub struct CertPrime {
    pub p: Uint,
    pub q: Option<Uint>,
    pub a: u64,
}

impl CertPrime {
    pub fn cert_event(&self) -> Value {
        match &self.q {
            None => json!({"op": "cert", "kind": "small", "p": dn(&self.p), "ps": self.p.digits()[0]}),
            Some(q) => json!({"op": "cert", "kind": "pock", "p": dn(&self.p), "q": dn(q), "a": self.a}),
        }
    }
}

pub fn small_prime(rng: &mut StdRng, bits: u32) -> CertPrime {
    assert!((2..=31).contains(&bits));
    loop {
        let c = rand_bits(rng, bits).digits()[0] | if bits > 1 { 1 } else { 0 };
        if is_prime_u64(c) && c < (1 << 31) {
            return CertPrime { p: Uint::from(c), q: None, a: 0 };
        }
    }
}

/// Pocklington step: a prime p of exactly `bits` bits with p = 2kq+1, accepted by `filter`.
pub fn pock_step(rng: &mut StdRng, q: &Uint, bits: u32, filter: &dyn Fn(&Uint) -> bool) -> Option<CertPrime> {
    let qb = q.bits();
    assert!(bits >= qb + 2 && bits <= 2 * qb - 1, "bits {} q bits {}", bits, qb);
    for _ in 0..200_000 {
        let k = rand_bits(rng, bits - qb);
        let p = (k * *q) * Uint::from(2u64) + Uint::ONE;
        if p.bits() != bits || !(*q * *q > p) {
            continue;
        }
        if !filter(&p) || !probably_prime(rng, &p) {
            continue;
        }
        let pm1 = p - Uint::ONE;
        let e = pm1 / *q;
        for a in 2u64..200 {
            let au = Uint::from(a);
            if !powmod(&au, &pm1, &p).is_one() {
                return None; // not prime after all
            }
            let t = powmod(&au, &e, &p);
            let g = gcd(&((t + p - Uint::ONE) % p), &p);
            if g.is_one() {
                return Some(CertPrime { p, q: Some(*q), a });
            }
        }
    }
    None
}

/// Certified prime of exactly `bits` bits, with its chain (events to emit before using it; the chain
/// is ordered so that every q is certified before the p that needs it).
pub fn certified_prime(rng: &mut StdRng, bits: u32, filter: &dyn Fn(&Uint) -> bool) -> Vec<CertPrime> {
    if bits <= 31 {
        loop {
            let c = small_prime(rng, bits);
            if filter(&c.p) {
                return vec![c];
            }
        }
    }
    // choose the size of q: a bit more than half
    let qbits = std::cmp::max((bits + 3) / 2 + 1, 16).min(bits - 2);
    loop {
        let mut chain = certified_prime(rng, qbits, &|_| true);
        let q = chain.last().unwrap().p;
        if let Some(c) = pock_step(rng, &q, bits, filter) {
            chain.push(c);
            return chain;
        }
    }
}

/// Self-contained certificate of the last prime of a chain, checked by spec/lib/Certs.tla
/// (`ChainOK`): a JSON array, first element {"ps": small prime < 2^31} (trial division in the spec),
/// then Pocklington steps {"p","q","a"} with q the previous element's prime.
pub fn chain_value(chain: &[CertPrime]) -> Value {
    let mut v = vec![];
    for c in chain {
        match &c.q {
            None => v.push(json!({"ps": c.p.digits()[0], "p": dn(&c.p)})),
            Some(q) => v.push(json!({"p": dn(&c.p), "q": dn(q), "a": c.a})),
        }
    }
    Value::from(v)
}

/// Pool of certified primes; remembers the certificate chain of every prime it handed out.
pub struct Pool {
    pub rng: StdRng,
    pub chains: std::collections::HashMap<Uint, Value>,
}

impl Pool {
    pub fn new(seed: u64) -> Pool {
        Pool { rng: rng_for(seed, "pool"), chains: Default::default() }
    }
    /// a certified prime of exactly `bits` bits
    pub fn prime(&mut self, bits: u32) -> Uint {
        self.prime_with(bits, &|_| true)
    }
    pub fn prime_with(&mut self, bits: u32, filter: &dyn Fn(&Uint) -> bool) -> Uint {
        let chain = certified_prime(&mut self.rng, bits, filter);
        let p = chain.last().unwrap().p;
        self.chains.entry(p).or_insert_with(|| chain_value(&chain));
        p
    }
    /// certificate chain (JSON) of a prime handed out earlier; None for anything else
    pub fn chain_of(&self, p: &Uint) -> Option<Value> {
        self.chains.get(p).cloned()
    }
    /// certificate for a small prime (< 2^31) given directly
    pub fn small_chain(p: u64) -> Value {
        json!([{"ps": p, "p": crate::trace::du(p)}])
    }
}
